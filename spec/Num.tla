------------------------------- MODULE Num -------------------------------
(***************************************************************************)
(* Abstract natural numbers.  The sketch kernels only ever add, subtract   *)
(* (a >= b), compare and take min/max of counters; they are written        *)
(* against these operator constants so that the SAME kernel text is        *)
(*   - model checked with plain TLC integers (IntNum, small ceilings), and *)
(*   - used to validate traces of the real code whose values (2^32-1,      *)
(*     uint64 bookkeeping counters, multiplicities up to 2^40) do not fit  *)
(*     TLC's 32-bit integers (DigNum: digit sequences, radix 2^30).        *)
(***************************************************************************)
EXTENDS Naturals, Sequences
CONSTANTS NAdd(_, _),   \* a + b
          NSub(_, _),   \* a - b, only used when a >= b
          NLt(_, _),    \* a < b
          NOf(_)        \* embedding of a small TLC natural

NZero      == NOf(0)
NLeq(a, b) == ~NLt(b, a)
NMin(a, b) == IF NLt(b, a) THEN b ELSE a
NMax(a, b) == IF NLt(a, b) THEN b ELSE a
\* saturating addition at ceiling cap (a, b <= cap)
NSatAdd(a, b, cap) == IF NLt(NSub(cap, a), b) THEN cap ELSE NAdd(a, b)

RECURSIVE NSumSeq(_)
NSumSeq(s) == IF s = <<>> THEN NZero ELSE NAdd(Head(s), NSumSeq(Tail(s)))
=============================================================================
