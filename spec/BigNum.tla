------------------------------ MODULE BigNum ------------------------------
(***************************************************************************)
(* Num realised by two-limb naturals <<hi, lo>>, value hi * 2^20 + lo,     *)
(* 0 <= lo < 2^20, 0 <= hi < 2^31: exact for everything below 2^51, which  *)
(* covers uint32 counters, the ceiling 2^32-1 = <<4095, 1048575>>,         *)
(* multiplicities up to 2^40 and the uint64 bookkeeping counters of every  *)
(* recorded history (the recorder refuses, exit 2, to log a value >= 2^50).*)
(***************************************************************************)
EXTENDS Naturals
BigR == 1048576
BigAdd(a, b) == LET lo == a[2] + b[2] IN <<a[1] + b[1] + (lo \div BigR), lo % BigR>>
BigSub(a, b) == IF a[2] >= b[2] THEN <<a[1] - b[1], a[2] - b[2]>>
                                ELSE <<a[1] - b[1] - 1, (a[2] + BigR) - b[2]>>
BigLt(a, b)  == a[1] < b[1] \/ (a[1] = b[1] /\ a[2] < b[2])
BigOf(n)     == <<n \div BigR, n % BigR>>
BigWF(a)     == a[1] \in Nat /\ a[2] \in 0..(BigR - 1)
=============================================================================
