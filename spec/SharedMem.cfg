SPECIFICATION Spec
CONSTANTS
  Views = {1, 2}
  Ops = {1, 2}
  MaxOps = 3
VIEW pview
INVARIANT OneState
INVARIANT OwnerUnlinks
INVARIANT AttachFailsAfterUnlink
INVARIANT Layout
PROPERTY ViewNeverUnlinks
CHECK_DEADLOCK FALSE
