SPECIFICATION Spec
CONSTANTS
  MSlots = 3
  MaxKeys = 4
  Slots <- MSlotSet
  PlaceChoices <- MPlaceChoices
  AddKeys <- MKeys
  Lists <- MLists
  NgramArgs <- MNgramArgs
VIEW view
CONSTRAINT Bound
INVARIANT UnionSemantics
INVARIANT MergeLaws
INVARIANT RanksPositive
CHECK_DEADLOCK FALSE
