SPECIFICATION Spec
CONSTANTS
  NAdd <- IntAdd
  NSub <- IntSub
  NLt <- IntLt
  NOf <- IntOf
  NCap <- MCap
  MatchRule = "identity"
  MW = 2
  MD = 1
  ML = 2
  MCap = 5
  MaxTruth = 4
  MSlots = 2
  EnvIdx = {}
  EnvFromFile = FALSE
  Slots <- MSlotSet
  EnvChoices <- MEnvChoices
  AddKeys <- MAddKeys
  AddVals <- MAddVals
  Lists <- MLists
  Dicts <- MDicts
  NgramArgs <- MNgramArgs
  RecVals <- MRecVals
  QueryKs <- MQueryKs
  QueryThrs <- MQueryThrs
  PhiNum = 1
  PhiDen = 2
VIEW view
CONSTRAINT Bound
INVARIANT NoOverCell
INVARIANT NoOver
INVARIANT NoGhost
INVARIANT Dominant
INVARIANT MajorityFirst
INVARIANT NAddedHH
INVARIANT CacheCoherent
INVARIANT CountsBelowCap
PROPERTY QueryAnswerProp
PROPERTY MonotoneAloneProp
CHECK_DEADLOCK FALSE
