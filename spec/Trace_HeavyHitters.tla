------------------------- MODULE Trace_HeavyHitters -------------------------
(***************************************************************************)
(* Trace validation of the real HeavyHitters class against HeavyHitters.tla*)
(* (same scheme as Trace_CountMinLinear).  Query answers are compared as   *)
(* the property (C13) fixes them: identical count sequence, every returned *)
(* pair a member of the specification's unbounded answer, distinct keys;   *)
(* the relative order of equal counts is left free.                        *)
(***************************************************************************)
EXTENDS HeavyHitters, DigNum, Json, IOUtils
VARIABLES tid, l, ok
tvars == <<vars, tid, l, ok>>

Traces == JsonDeserialize(IOEnv.TRACE_FILE)
BigCap32 == <<1073741823, 3>>     \* 2^32 - 1 in base-2^30 digits
TSlots == 1..(CHOOSE m \in 1..64 : (\A i \in 1..Len(Traces) : Traces[i].NS <= m) /\ (m = 1 \/ \E i \in 1..Len(Traces) : Traces[i].NS = m))   \* as many slots as the largest trace of the batch uses

TraceEnv(t) ==
  [W |-> t.W, D |-> t.D, L |-> t.L,
   col |-> [k \in {t.keys[i].b : i \in 1..Len(t.keys)} |->
              t.keys[CHOOSE i \in 1..Len(t.keys) : t.keys[i].b = k].cols]]

TInit ==
  /\ tid \in 1..Len(Traces)
  /\ l = 1
  /\ ok = TRUE
  /\ env = TraceEnv(Traces[tid])
  /\ sk    = [s \in Slots |-> HHEmpty(env.W, env.D, env.L)]
  /\ cache = [s \in Slots |-> NoCache]
  /\ truth = [s \in Slots |-> [k \in DOMAIN env.col |-> NZero]]
  /\ sat   = [s \in Slots |-> FALSE]
  /\ op    = [name |-> "init"]

Events == Traces[tid].events

Consume(e) ==
  \/ e.ev = "add"          /\ Add(e.s, e.k, e.v)
  \/ e.ev = "update_list"  /\ UpdateList(e.s, e.ks)
  \/ e.ev = "update_dict"  /\ UpdateDict(e.s, e.kvs)
  \/ e.ev = "add_ngram"    /\ AddNgram(e.s, e.key, e.n)
  \/ e.ev = "update_ngram" /\ UpdateNgram(e.s, e.keys, e.n)
  \/ e.ev = "merge"        /\ Merge(e.s, e.t)
  \/ e.ev = "saveload"     /\ SaveLoad(e.s, e.t, e.thr)
  \/ e.ev = "add_records"  /\ AddRecords(e.s, e.n)
  \/ e.ev = "query"        /\ QueryTop(e.s, e.kk, e.thr)
  \/ e.ev = "getitem"      /\ GetItem(e.s, e.k)
  \/ e.ev = "generate"     /\ Generate(e.s, e.thr)
  \* an observed sketch whose true stream is known (result of a real spawned parallel_add, whose
  \* merge order is not observable): the invariants are evaluated on the observed state
  \/ e.ev = "observe"      /\ sk' = [sk EXCEPT ![e.s] = e.state]
                           /\ truth' = [truth EXCEPT ![e.s] = [k \in DOMAIN env.col |->
                                 IF \E i \in 1..Len(e.truth) : e.truth[i][1] = k
                                 THEN e.truth[CHOOSE i \in 1..Len(e.truth) : e.truth[i][1] = k][2] ELSE NZero]]
                           /\ sat' = [sat EXCEPT ![e.s] = FALSE]
                           /\ cache' = [cache EXCEPT ![e.s] = NoCache]
                           /\ op' = [name |-> "observe", s |-> e.s]
                           /\ UNCHANGED env

QueryMatches(got, o) ==
  /\ Len(got) = Len(o.out)
  /\ \A i \in 1..Len(got) :
        /\ got[i][2] = o.out[i][2]
        /\ \E j \in 1..Len(o.full) : o.full[j] = got[i]
        /\ \A j \in 1..Len(got) : j # i => got[j][1] # got[i][1]

Matches(e) ==
  /\ "post" \in DOMAIN e => \A s \in 1..Len(e.post) : sk'[s] = e.post[s]
  /\ e.ev = "query" => QueryMatches(e.out, op')
  /\ e.ev = "getitem" => op'.out = e.out

TStep ==
  /\ l <= Len(Events)
  /\ LET e == Events[l] IN
       /\ Consume(e)
       /\ ok' = Matches(e)
       /\ IF Matches(e) THEN TRUE ELSE PrintT(<<"MISMATCH", tid, l, ToJson([ev |-> e.ev, spec |-> sk', out |-> op'])>>)
  /\ l' = l + 1
  /\ tid' = tid

TDone == l > Len(Events) /\ UNCHANGED tvars
TNext == TStep \/ TDone
TSpec == TInit /\ [][TNext]_tvars
TraceOK == ok
=============================================================================
