---- MODULE MC_ParallelAdd ----
EXTENDS ParallelAdd
CONSTANTS FaultSel, DieSel
\* scenario tables selected from the cfg
AllOk == [i \in 1..K |-> "ok"]
F_after2before3 == [i \in 1..K |-> IF i = 2 THEN "after" ELSE IF i = 3 THEN "before" ELSE "ok"]
F_before1 == [i \in 1..K |-> IF i = 1 THEN "before" ELSE "ok"]
F_allraise == [i \in 1..K |-> IF i % 2 = 0 THEN "after" ELSE "before"]
MFault == CASE FaultSel = 0 -> AllOk [] FaultSel = 1 -> F_after2before3 [] FaultSel = 2 -> F_before1 [] FaultSel = 3 -> F_allraise
MDie == DieSel
MRet == [i \in 1..K |-> i]
NoAssign == <<>>
NoDie == <<0, 0>>
Die11 == <<1, 1>>
Die12 == <<1, 2>>
Die21 == <<2, 1>>
Die22 == <<2, 2>>
Die31 == <<3, 1>>
Sym == Permutations(1..N)
\* validation of a recorded run: every terminal state reachable under the recorded assignment
\* must have the recorded outcome
CONSTANTS RecSt, RecNrec
RecordedOutcome == Terminated => (result.st = RecSt /\ (RecSt = "returned" => result.nrec = RecNrec))
====
