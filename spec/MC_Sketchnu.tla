---- MODULE MC_Sketchnu ----
EXTENDS Sketchnu
KA == <<1>>
KB == <<2>>
KC == <<3>>
MItemKeys == << << <<KA, 2>>, <<KB, 1>> >>, << <<KB, 3>> >>, << <<KC, 1>>, <<KA, 1>> >>, << >> >>
MColChoices == { f \in [{KA, KB, KC} -> [1..D -> 1..W]] : \A r \in 1..D : f[KA][r] = 1 }
MFault == [i \in 1..K |-> IF i = 2 THEN "after" ELSE IF i = 4 THEN "before" ELSE "ok"]
AllOk == [i \in 1..K |-> "ok"]
MRet == [i \in 1..K |-> i]
NoDie == <<0, 0>>
NoAssign == <<>>
====
