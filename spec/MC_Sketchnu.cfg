SPECIFICATION Spec
CONSTANTS
  NAdd <- IntAdd
  NSub <- IntSub
  NLt <- IntLt
  NOf <- IntOf
  NCap = 1000000
  N = 2
  K = 4
  W = 2
  D = 2
  Fault <- MFault
  DieAt <- NoDie
  Assign <- NoAssign
  Ret <- MRet
  MergerDies = 0
  ItemKeys <- MItemKeys
  ColChoices <- MColChoices
INVARIANT Refinement
INVARIANT PASafety
CHECK_DEADLOCK TRUE
