------------------------------ MODULE IntNum ------------------------------
(* Num realised by TLC integers (exhaustive model checking, small ceilings) *)
EXTENDS Naturals
IntAdd(a, b) == a + b
IntSub(a, b) == a - b
IntLt(a, b)  == a < b
IntOf(n)     == n
=============================================================================
