------------------------- MODULE MC_CountMinLinear -------------------------
EXTENDS CountMinLinear, IntNum, Json
CONSTANTS MW, MD, MCap, MaxTruth, MSlots,
          EnvIdx   \* indices of the placements to explore ({} = all)

K1 == <<1>>
K2 == <<2>>
K3 == <<1, 2>>
MKeys == {K1, K2, K3}
\* every placement of the three keys; the first key is pinned to column 1 of
\* every row (columns of a row are interchangeable in every kernel)
MEnvAll ==
  { [W |-> MW, D |-> MD, col |-> c] :
      c \in { f \in [MKeys -> [1..MD -> 1..MW]] : \A r \in 1..MD : f[K1][r] = 1 } }
MEnvSeq == SetToSeq(MEnvAll)
MEnvChoices == IF EnvIdx = {} THEN MEnvAll
               ELSE { MEnvSeq[((i - 1) % Len(MEnvSeq)) + 1] : i \in EnvIdx }
MAddVals   == {0, 1, 2, MCap - 1, MCap, MCap + 1}
MLists     == { <<K1, K2>>, <<K2, K2, K3>>, <<>> }
MDicts     == { << <<K1, 2>>, <<K3, 1>> >>, << <<K2, MCap>>, <<K1, 1>> >> }
MNgramArgs == { <<K3, 1>>, <<K3, 2>>, <<K3, 3>>, << <<2, 1, 1>>, 1>>, <<K1, 1>> }
MRecVals   == {1}
MNone      == {}
MAddValsSmall == {1, MCap, MCap + 1}
MDictsSmall == { << <<K1, 2>>, <<K3, 1>> >> }
MSlotSet   == 1..MSlots

TotalTruth == LET ss == SetToSeq(Slots) IN NSumSeq([i \in 1..Len(ss) |-> TruthSum(ss[i])])
RecBound   == \A s \in Slots : sk[s].nrec <= 2
Bound      == TotalTruth <= MaxTruth /\ RecBound
\* edge export for spec-to-code replay (ACTION_CONSTRAINT; prints every explored edge)
EnvSeq == [W |-> env.W, D |-> env.D,
           col |-> [i \in 1..Len(KeySeq) |-> <<KeySeq[i], env.col[KeySeq[i]]>>]]
LogEdge == PrintT(<<"EDGE", ToJson([e |-> EnvSeq, f |-> sk, o |-> op', t |-> sk'])>>)
=============================================================================
