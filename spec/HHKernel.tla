------------------------------ MODULE HHKernel ------------------------------
(***************************************************************************)
(* Functional kernel of sketchnu.heavyhitters.HeavyHitters (Topkapi).      *)
(*   sketch == [cells : 1..D -> 1..W -> [key : Seq(0..255) of length L,    *)
(*                                        len : 0..L, cnt : Num],          *)
(*              nadd, nrec : Num]                                          *)
(* A key's identity is its first L bytes AND its length: the stored bytes  *)
(* are zero padded, so b"a" and b"a\0" differ only in `len'.  HHMatch is   *)
(* the comparison the property (C03) demands; HHMatchPadded is the         *)
(* comparison of the tree as pinned (finding F1: padded bytes only), kept  *)
(* as a named deviation so that the defect can be reproduced at model      *)
(* level (MC_HeavyHitters with Match <- "padded").                         *)
(***************************************************************************)
EXTENDS Num, FiniteSets
CONSTANTS NCap,          \* 2^32-1 in the code
          MatchRule      \* "identity" (specification) | "padded" (finding F1)

Trunc(k, L) == IF Len(k) <= L THEN k ELSE SubSeq(k, 1, L)
Pad(k, L)   == [i \in 1..L |-> IF i <= Len(k) THEN k[i] ELSE 0]
Zeros(L)    == [i \in 1..L |-> 0]
CellKey(cell) == SubSeq(cell.key, 1, cell.len)     \* what generate_candidate_set reads

HHMatch(cell, k, L) ==
  /\ cell.key = Pad(k, L)
  /\ MatchRule = "identity" => cell.len = Len(k)

HHEmpty(W, D, L) ==
  [cells |-> [r \in 1..D |-> [c \in 1..W |-> [key |-> Zeros(L), len |-> 0, cnt |-> NZero]]],
   nadd |-> NZero, nrec |-> NZero]

\* HeavyHitters.add(key, v0): v = min(v0, 2^32-1); key truncated to L bytes; n_added += v;
\* in every row the key's cell is updated by the Boyer-Moore majority rule
HHAdd(sk, L, k0, cols, v0) ==
  LET v == NMin(v0, NCap)
      k == Trunc(k0, L)
      upd(cell) ==
        IF HHMatch(cell, k, L)
        THEN [cell EXCEPT !.cnt = IF NLt(v, NSub(NCap, cell.cnt)) THEN NAdd(cell.cnt, v) ELSE NCap]
        ELSE IF NLt(cell.cnt, v)
             THEN [key |-> Pad(k, L), len |-> Len(k), cnt |-> NSub(v, cell.cnt)]
             ELSE [cell EXCEPT !.cnt = NSub(cell.cnt, v)]
  IN  [sk EXCEPT !.nadd  = NAdd(sk.nadd, v),
                 !.cells = [r \in DOMAIN sk.cells |-> [c \in DOMAIN sk.cells[r] |->
                              IF c = cols[r] THEN upd(sk.cells[r][c]) ELSE sk.cells[r][c]]]]

\* kcvs: sequence of <<key, cols, value>>
RECURSIVE HHAddAll(_, _, _)
HHAddAll(sk, L, kcvs) ==
  IF kcvs = <<>> THEN sk
  ELSE HHAddAll(HHAdd(sk, L, Head(kcvs)[1], Head(kcvs)[2], Head(kcvs)[3]), L, Tail(kcvs))

\* _merge: cell by cell
HHMerge(a, b) ==
  LET mc(x, y) ==
        IF x.key = y.key /\ x.len = y.len
        THEN [x EXCEPT !.cnt = NSatAdd(x.cnt, y.cnt, NCap)]
        ELSE IF NLeq(y.cnt, x.cnt) THEN [x EXCEPT !.cnt = NSub(x.cnt, y.cnt)]
             ELSE [key |-> y.key, len |-> y.len, cnt |-> NSub(y.cnt, x.cnt)]
  IN  [cells |-> [r \in DOMAIN a.cells |-> [c \in DOMAIN a.cells[r] |-> mc(a.cells[r][c], b.cells[r][c])]],
       nadd |-> NAdd(a.nadd, b.nadd), nrec |-> NAdd(a.nrec, b.nrec)]

\* hh[key] (_max_count), Len(k) <= L: largest count among the rows whose cell is k
HHGet(sk, L, k, cols) ==
  LET m[r \in 0..Len(cols)] ==
        IF r = 0 THEN NZero
        ELSE LET cell == sk.cells[r][cols[r]] IN
             IF HHMatch(cell, k, L) THEN NMax(m[r - 1], cell.cnt) ELSE m[r - 1]
  IN  m[Len(cols)]

\* generate_candidate_set(thr): row-major scan; colOf(key) gives the columns of a stored key
HHCandidates(sk, L, thr, colOf(_)) ==
  LET D == Len(sk.cells)
      W == Len(sk.cells[1])
      scan[i \in 0..(D * W)] ==
        IF i = 0 THEN <<>>
        ELSE LET r    == ((i - 1) \div W) + 1
                 c    == ((i - 1) % W) + 1
                 cell == sk.cells[r][c]
                 key  == CellKey(cell)
                 prev == scan[i - 1]
             IN  IF cell.cnt = NZero \/ \E j \in 1..Len(prev) : prev[j][1] = key
                 THEN prev
                 ELSE LET mc == HHGet(sk, L, key, colOf(key))
                      IN  IF NLeq(thr, mc) THEN Append(prev, <<key, mc>>) ELSE prev
  IN  scan[D * W]

\* Counter.most_common(): stable sort by count, descending (insertion sort)
RECURSIVE SortDesc(_)
InsertDesc(x, s) ==
  LET pos == CHOOSE p \in 1..(Len(s) + 1) :
               /\ \A j \in 1..(p - 1) : NLeq(x[2], s[j][2])
               /\ p <= Len(s) => NLt(s[p][2], x[2])
  IN  SubSeq(s, 1, pos - 1) \o <<x>> \o SubSeq(s, pos, Len(s))
SortDesc(s) == IF s = <<>> THEN <<>> ELSE InsertDesc(s[Len(s)], SortDesc(SubSeq(s, 1, Len(s) - 1)))
\* kk = 0 stands for "all" (k larger than the number of candidates)
TopK(cand, kk) == LET srt == SortDesc(cand) IN
                  IF kk = 0 \/ kk >= Len(srt) THEN srt ELSE SubSeq(srt, 1, kk)

Windows(key, n) ==
  IF Len(key) <= n THEN <<key>>
  ELSE [i \in 1..(Len(key) - n + 1) |-> SubSeq(key, i, i + n - 1)]
=============================================================================
