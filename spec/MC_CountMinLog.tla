--------------------------- MODULE MC_CountMinLog ---------------------------
(* Small dyadic instance: base 2, NR reserved values, counters 0..UMax;
   Val[NR + k] = NR + 2^k - 1, P[k] = 2^-k (scaled by 2^MUMax). *)
EXTENDS CountMinLog, IntNum
CONSTANTS MW, MD, MUMax, MNR, MSlots, MaxTruth
K1 == <<1>>
K2 == <<2>>
MKeys == {K1, K2}
Scale == 2 ^ MUMax
MCfg == [UMax |-> MUMax, NR |-> MNR,
         Val  |-> [c \in 0..MUMax |-> IF c <= MNR THEN c ELSE MNR + 2 ^ (c - MNR) - 1],
         MaxCount |-> MNR + 2 ^ (MUMax - MNR) - 1,
         P    |-> [k \in 0..(MUMax - MNR) |-> Scale \div (2 ^ k)]]
MEnvChoices ==
  { [W |-> MW, D |-> MD, cfg |-> MCfg, col |-> c] :
      c \in { f \in [MKeys -> [1..MD -> 1..MW]] : \A r \in 1..MD : f[K1][r] = 1 } }
MSlotSet == 1..MSlots
MAddVals == {0, 1, 2}
MDrawVals == {0, Scale - 1}       \* a draw that always succeeds / one that fails whenever P < 1
ZeroTol(x) == 0
Bound == \A s \in Slots : /\ truth[s][K1] + truth[s][K2] <= MaxTruth
                          /\ rnd[s].batch <= 2
=============================================================================
