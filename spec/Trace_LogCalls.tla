--------------------------- MODULE Trace_LogCalls ---------------------------
(***************************************************************************)
(* Bulk validation of single kernel transitions of the log counters        *)
(* against CMLog.tla: one implementation test per transition.              *)
(*   "step"  : a counter holding c receives one unit add with the placed   *)
(*             draw u  -> must become c2 = LogCounter(c, 1, <<u>>)         *)
(*   "merge" : cells a and b merge into r -> LogMergeOK(a, b, r)           *)
(*   "ctor"  : a constructor call: ValueError, or the ceiling decodes to   *)
(*             max_count                                                   *)
(* TRACE_FILE: [cfgs, batches]; a batch names its configuration by index;  *)
(* tables are dense sequences indexed from counter 0 (DigNum integers).    *)
(***************************************************************************)
EXTENDS CMLog, DigNum, Json, IOUtils, TLC
VARIABLES tid, l, ok
Data == JsonDeserialize(IOEnv.TRACE_FILE)     \* [cfgs: the configurations (tables once), batches: [c, calls]]
Batches == Data.batches
RelTol(x) == DigShift(x)
CfgOf(b) == [UMax |-> b.UMax, NR |-> b.NR, MaxCount |-> b.MaxCount,
             Val |-> [c \in 0..b.UMax |-> b.Val[c + 1]],
             P   |-> [k \in 0..(Len(b.P) - 1) |-> b.P[k + 1]]]
CallOK(cfg, c) ==
  CASE c[1] = "step"  -> LogCounter(cfg, c[2], 1, <<c[3]>>, 0)[1] = c[4]
    [] c[1] = "merge" -> LogMergeOK(cfg, c[2], c[3], c[4], RelTol)
    \* constructor outcome (C18): c[2] = 1 accepted / 0 ValueError; an accepted configuration's
    \* maximum counter decodes to max_count: |top - mc| <= tol  (c[3] = top, c[4] = mc, c[5] = tol)
    [] c[1] = "ctor"  -> c[2] = 1 => /\ NLeq(c[3], NAdd(c[4], c[5]))
                                     /\ NLeq(c[4], NAdd(c[3], c[5]))
TInit == tid \in 1..Len(Batches) /\ l = 1 /\ ok = TRUE
\* each state checks a slice of 64 calls
TStep ==
  /\ l <= Len(Batches[tid].calls)
  /\ LET b   == Batches[tid]
         cfg == CfgOf(Data.cfgs[b.c])
         hi  == IF l + 63 <= Len(b.calls) THEN l + 63 ELSE Len(b.calls)
         bad == {i \in l..hi : ~CallOK(cfg, b.calls[i])}
     IN  /\ ok' = (bad = {})
         /\ IF bad = {} THEN TRUE ELSE PrintT(<<"MISMATCH", tid, l, ToJson([bad |-> [i \in 1..1 |-> b.calls[CHOOSE i2 \in bad : TRUE]]])>>)
         /\ l' = hi + 1
  /\ tid' = tid
TDone == l > Len(Batches[tid].calls) /\ UNCHANGED <<tid, l, ok>>
TSpec == TInit /\ [][TStep \/ TDone]_<<tid, l, ok>>
TraceOK == ok
=============================================================================
