---------------------------- MODULE Trace_Persist ----------------------------
(***************************************************************************)
(* Validation of real save()/load() executions against Persist.tla.        *)
(* TRACE_FILE: [files: [...], roundtrips: [...]]                           *)
(*  files[i] = [regions: [[kind, len]..], total, events: [[offset, loader, *)
(*             outcome]..]]  -- the saved file parsed into container       *)
(*             regions and the outcome of loading EVERY strict prefix and  *)
(*             the complete file (C20)                                     *)
(*  roundtrips[i] = one save -> load with a given loader (C10)             *)
(***************************************************************************)
EXTENDS PersistLogic, Naturals, Sequences, FiniteSets, Json, IOUtils, TLC
Data == JsonDeserialize(IOEnv.TRACE_FILE)
Files == Data.files
Trips == Data.roundtrips

\* premise of the container model on the real file: members (hdr name data)*, then the
\* directory with one entry per member, then the EOCD as the last bytes
LayoutOK(f) ==
  LET r  == f.regions
      n  == Len(r)
      nm == Cardinality({i \in 1..n : r[i][1] = "hdr"})
  IN  /\ nm >= 1 /\ n = 4 * nm + 1
      /\ \A m \in 1..nm : /\ r[3 * m - 2][1] = "hdr" /\ r[3 * m - 1][1] = "name" /\ r[3 * m][1] = "data"
      /\ \A m \in 1..nm : r[3 * nm + m][1] = "cd"
      /\ r[n][1] = "eocd"
      /\ f.total = LET s[i \in 0..n] == IF i = 0 THEN 0 ELSE s[i - 1] + r[i][2] IN s[n]
\* only the complete file loads, and it loads to the saved sketch
PrefixOK(f, e) == IF e[1] = f.total THEN e[3] = "loaded_equal" ELSE e[3] = "exception"

TripOK(t) ==
  IF Accepts(t.loader, t.cls)
  THEN /\ t.outcome = "ok"
       /\ t.cls_after = t.cls                  \* same class
       /\ t.params_after = t.params_before     \* same public parameters
       /\ t.state_after = t.state_before       \* same tables and bookkeeping counters
       /\ t.obs_after = t.obs_before           \* every query / n_added / n_records
       /\ t.merge_ab = "ok" /\ t.merge_ba = "ok"
  ELSE t.outcome = "TypeError"                  \* another counter type is rejected

VARIABLES fi, l, ok
Init == fi \in 0..Len(Files) /\ l = 1 /\ ok = TRUE
NextF ==
  /\ fi >= 1 /\ l <= Len(Files[fi].events)
  /\ LET f   == Files[fi]
         hi  == IF l + 255 <= Len(f.events) THEN l + 255 ELSE Len(f.events)
         bad == {i \in l..hi : ~PrefixOK(f, f.events[i])}
     IN  /\ ok' = (bad = {} /\ LayoutOK(f))
         /\ IF bad = {} THEN TRUE ELSE PrintT(<<"MISMATCH", fi, l, ToJson([bad |-> f.events[CHOOSE i \in bad : TRUE]])>>)
         /\ l' = hi + 1
  /\ fi' = fi
NextT ==
  /\ fi = 0 /\ l <= Len(Trips)
  /\ LET hi  == IF l + 15 <= Len(Trips) THEN l + 15 ELSE Len(Trips)
         bad == {i \in l..hi : ~TripOK(Trips[i])}
     IN  /\ ok' = (bad = {})
         /\ IF bad = {} THEN TRUE ELSE PrintT(<<"MISMATCH", 0, l, ToJson([bad |-> Trips[CHOOSE i \in bad : TRUE]])>>)
         /\ l' = hi + 1
  /\ fi' = fi
Done == (IF fi = 0 THEN l > Len(Trips) ELSE l > Len(Files[fi].events)) /\ UNCHANGED <<fi, l, ok>>
TSpec == Init /\ [][NextF \/ NextT \/ Done]_<<fi, l, ok>>
TraceOK == ok
=============================================================================
