SPECIFICATION FairSpec
CONSTANTS
  N = 2
  K = 4
  FaultSel = 1
  DieSel <- NoDie
  Fault <- MFault
  DieAt <- MDie
  Assign <- NoAssign
  Ret <- MRet
INVARIANT ExactlyOnce
INVARIANT ResultIsWholeStream
INVARIANT RaiseKeepsOthers
INVARIANT DeathNeverReturns
INVARIANT QueueBounded
PROPERTY Termination
CHECK_DEADLOCK TRUE
