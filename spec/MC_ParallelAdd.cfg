SPECIFICATION FairSpec
CONSTANTS
  N = 2
  K = 4
  FaultSel = 1
  DieSel <- NoDie
  Fault <- MFault
  DieAt <- MDie
  Assign <- NoAssign
  Ret <- MRet
  MergerDies = 0
  RecSt = "none"
  RecNrec = 0
INVARIANT ExactlyOnce
INVARIANT ResultIsWholeStream
INVARIANT RaiseKeepsOthers
INVARIANT DeathNeverReturns
INVARIANT MergerDeathNeverReturns
INVARIANT QueueBounded
PROPERTY Termination
CHECK_DEADLOCK TRUE
