SPECIFICATION Spec
CONSTANTS
  NAdd <- IntAdd
  NSub <- IntSub
  NLt <- IntLt
  NOf <- IntOf
  MW = 2
  MD = 1
  MUMax = 4
  MNR = 1
  MSlots = 2
  MaxTruth = 4
  B = 2
  Slots <- MSlotSet
  EnvChoices <- MEnvChoices
  AddVals <- MAddVals
  DrawVals <- MDrawVals
  MTol <- ZeroTol
VIEW view
CONSTRAINT Bound
INVARIANT LowerLog
INVARIANT ReservedExact
INVARIANT Fresh
PROPERTY FreshProp
PROPERTY AddEffectLogProp
PROPERTY MonotoneLogProp
PROPERTY MergeEffectLogProp
CHECK_DEADLOCK FALSE
