----------------------------- MODULE Constructors -----------------------------
(***************************************************************************)
(* Growth of the specification beyond the listed properties: which          *)
(* constructor calls are accepted, what the resulting public parameters    *)
(* are, and how the CountMin() factory and helpers.attach_shared_memory    *)
(* dispatch.  A call is a record [fn, ...arguments...]; integers that may  *)
(* exceed TLC's range travel as DigNum.  Trace events carry the call, the  *)
(* outcome ("ok" | "ValueError" | "TypeError") and the observed parameters.*)
(***************************************************************************)
EXTENDS DigNum, Json, IOUtils, TLC
Le(a, b) == ~DigLt(b, a)
\* does a base > 1 exist?  K = UMax - nr counters above the reserved range must span
\* M = max_count - nr values: iff K >= 2 and M > K   (see _find_base)
BaseExists(umax, nr, maxc) ==
  /\ umax - nr >= 2
  /\ DigLt(DigOf(umax), maxc)          \* M > K  <=>  max_count > UMax
LogOK(c, umax) ==
  /\ c.width > 0 /\ c.depth > 0
  /\ c.nr < umax
  /\ c.nr >= 0
  /\ BaseExists(umax, c.nr, c.maxc)
RECURSIVE Expected(_)
Expected(c) ==
  CASE c.fn = "linear" -> IF c.width > 0 /\ c.depth > 0 THEN "ok" ELSE "ValueError"
    [] c.fn = "log16"  -> IF LogOK(c, 65535) THEN "ok" ELSE "ValueError"
    [] c.fn = "log8"   -> IF LogOK(c, 255) THEN "ok" ELSE "ValueError"
    [] c.fn = "hll"    -> IF c.p >= 7 /\ c.p <= 16 THEN "ok" ELSE "ValueError"
    [] c.fn = "hh"     -> IF /\ c.width > 0 /\ c.depth > 0 /\ c.L >= 1 /\ c.L <= 255
                             /\ c.phi \in {"none", "in"}          \* None, or a float in (0, 1]
                             /\ c.ints_ok /\ c.shm_is_bool
                          THEN "ok" ELSE "ValueError"
    [] c.fn = "factory" -> IF c.kind \notin {"linear", "log16", "log8"} THEN "ValueError"
                           ELSE Expected([c EXCEPT !.fn = c.kind])
    [] c.fn = "attach"  -> IF c.kind \in {"cms", "hh", "hll"} THEN "ok" ELSE "TypeError"
\* the class the factory / attach dispatch to
ExpectedClass(c) ==
  CASE c.fn = "factory" -> c.kind
    [] c.fn = "attach"  -> c.target
    [] OTHER -> c.fn
EventOK(e) ==
  /\ e.outcome = Expected(e.call)
  /\ e.outcome = "ok" => /\ e.cls = ExpectedClass(e.call)
                         /\ e.params_ok            \* observed public parameters equal the arguments (defaults filled in)
Data == JsonDeserialize(IOEnv.TRACE_FILE)
VARIABLES l, ok
Init == l = 1 /\ ok = TRUE
Next ==
  /\ l <= Len(Data)
  /\ LET hi  == IF l + 31 <= Len(Data) THEN l + 31 ELSE Len(Data)
         bad == {i \in l..hi : ~EventOK(Data[i])}
     IN  /\ ok' = (bad = {})
         /\ IF bad = {} THEN TRUE ELSE PrintT(<<"MISMATCH", 1, l, ToJson([bad |-> Data[CHOOSE i \in bad : TRUE],
                                                expected |-> Expected(Data[CHOOSE i \in bad : TRUE].call)])>>)
         /\ l' = hi + 1
Done == l > Len(Data) /\ UNCHANGED <<l, ok>>
Spec == Init /\ [][Next \/ Done]_<<l, ok>>
TraceOK == ok
=============================================================================
