SPECIFICATION TSpec
CONSTANTS
  NAdd <- BigAdd
  NSub <- BigSub
  NLt <- BigLt
  NOf <- BigOf
  NCap <- BigCap32
  Slots <- TSlots
  EnvChoices = {}
  AddVals = {}
  Lists = {}
  Dicts = {}
  NgramArgs = {}
  RecVals = {}
INVARIANT TraceOK
INVARIANT Lower
INVARIANT Upper
INVARIANT UpperCell
INVARIANT Exact
INVARIANT NAdded
INVARIANT CellsBelowCap
INVARIANT MergeAlgebra
PROPERTY AddEffectProp
PROPERTY MonotoneProp
PROPERTY MergeEffectProp
CHECK_DEADLOCK TRUE
