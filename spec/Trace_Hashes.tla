---------------------------- MODULE Trace_Hashes ----------------------------
(***************************************************************************)
(* Validation of recorded calls of the real sketchnu.hashes functions      *)
(* against Hashes.tla.  TRACE_FILE: JSON array of batches, each a sequence *)
(* of calls [fn, key, seed, out] (words as little-endian byte lists).      *)
(* "cmcol" calls check the documented placement of count-min rows:         *)
(* column = FastHash64(key, row) % width.                                  *)
(* One state per call (hashes are evaluated inside the action, where TLC   *)
(* caches operator arguments).                                             *)
(***************************************************************************)
EXTENDS Hashes, Json, IOUtils
VARIABLES tid, l, ok
Batches == JsonDeserialize(IOEnv.TRACE_FILE)

Expected(c) ==
  CASE c.fn = "fasthash64" -> FastHash64(c.key, c.seed)
    [] c.fn = "fasthash32" -> FastHash32(c.key, c.seed)
    [] c.fn = "murmur3"    -> Murmur3(c.key, c.seed)
    [] c.fn = "cmcol"      -> CMCol(c.key, c.row, c.W)
    [] c.fn = "hllplace"   -> <<HllIdx(FastHash64(c.key, c.seed), c.p), HllRank(FastHash64(c.key, c.seed), c.p)>>

TInit == tid \in 1..Len(Batches) /\ l = 1 /\ ok = TRUE
TStep ==
  /\ l <= Len(Batches[tid])
  /\ LET c == Batches[tid][l]
         e == Expected(c)
     IN  /\ ok' = (e = c.out)
         /\ IF e = c.out THEN TRUE ELSE PrintT(<<"MISMATCH", tid, l, ToJson([fn |-> c.fn, spec |-> e])>>)
  /\ l' = l + 1 /\ tid' = tid
TDone == l > Len(Batches[tid]) /\ UNCHANGED <<tid, l, ok>>
TSpec == TInit /\ [][TStep \/ TDone]_<<tid, l, ok>>
TraceOK == ok
=============================================================================
