---------------------------- MODULE Trace_Hashes ----------------------------
(***************************************************************************)
(* Validation of recorded calls of the real sketchnu.hashes functions      *)
(* against Hashes.tla.  TRACE_FILE: JSON array of batches, each a sequence *)
(* of calls [fn, key, seed, out] (words as little-endian byte lists).      *)
(* "cmcol" calls check the documented placement of count-min rows:         *)
(* column = FastHash64(key, row) % width.                                  *)
(* One state per call (hashes are evaluated inside the action, where TLC   *)
(* caches operator arguments).                                             *)
(***************************************************************************)
EXTENDS Hashes, Json, IOUtils
VARIABLES tid, l, ok
Batches == JsonDeserialize(IOEnv.TRACE_FILE)

Expected(c) ==
  CASE c.fn = "fasthash64" -> FastHash64(c.key, c.seed)
    [] c.fn = "fasthash32" -> FastHash32(c.key, c.seed)
    [] c.fn = "murmur3"    -> Murmur3(c.key, c.seed)
    [] c.fn = "cmcol"      -> CMCol(c.key, c.row, c.W)
    [] c.fn = "hllplace"   -> <<HllIdx(FastHash64(c.key, c.seed), c.p), HllRank(FastHash64(c.key, c.seed), c.p)>>
    \* C14, tolerant stage: every cell of the joint column distribution of two rows holds between
    \* half and twice its expectation n/W^2 (expected value of the check: "ok")
    [] c.fn = "joint"      -> IF \A i \in 1..Len(c.counts) : \A j \in 1..Len(c.counts[i]) :
                                    /\ 2 * c.counts[i][j] * c.W * c.W >= c.n
                                    /\ c.counts[i][j] * c.W * c.W <= 2 * c.n
                              THEN "ok" ELSE "skewed"
    \* C14, documented bound: at most exp(-depth) of the keys exceed true + e*N/width
    \* (c.ed = ceil(exp(depth)))
    [] c.fn = "zipf"       -> IF c.bad * c.ed <= c.nkeys THEN "ok" ELSE "exceeded"

TInit == tid \in 1..Len(Batches) /\ l = 1 /\ ok = TRUE
TStep ==
  /\ l <= Len(Batches[tid])
  /\ LET c == Batches[tid][l]
         e == Expected(c)
     IN  /\ ok' = (e = c.out)
         /\ IF e = c.out THEN TRUE ELSE PrintT(<<"MISMATCH", tid, l, ToJson([fn |-> c.fn, spec |-> e])>>)
  /\ l' = l + 1 /\ tid' = tid
TDone == l > Len(Batches[tid]) /\ UNCHANGED <<tid, l, ok>>
TSpec == TInit /\ [][TStep \/ TDone]_<<tid, l, ok>>
TraceOK == ok
=============================================================================
