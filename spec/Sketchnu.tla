------------------------------- MODULE Sketchnu -------------------------------
(***************************************************************************)
(* Top-level composition: parallel_add over CONCRETE linear count-min      *)
(* sketches.  ParallelAdd.tla carries, per worker, the abstract set of     *)
(* items whose contribution its sketch holds; here every worker also owns  *)
(* a CMLin sketch value that is updated exactly when ParallelAdd says an   *)
(* item was contributed, and the merge rounds are the real LinMerge.  TLC  *)
(* checks the refinement claim that the rest of the verification relies    *)
(* on: at return, the concrete result equals what the abstract bag         *)
(* promises -- its table satisfies C01 with respect to the WHOLE stream    *)
(* (true <= estimate <= collision bound), n_added is the total             *)
(* multiplicity and n_records the sum of the callback's returns -- for     *)
(* every schedule, every assignment of items to workers and every          *)
(* placement of the keys.                                                  *)
(***************************************************************************)
EXTENDS CMLin, IntNum, Naturals, Sequences, FiniteSets, TLC
CONSTANTS N, K, Fault, DieAt, Assign, Ret, MergerDies,
          W, D,            \* sketch shape
          ItemKeys,        \* item -> sequence of <<key, multiplicity>>  (what the callback adds)
          ColChoices       \* admissible placements key -> columns
VARIABLES queue, fill, wst, wcur, wcnt, bag, part, rec, flushed, deq, mpc, closed, result,
          col,             \* the placement (chosen initially)
          wsk,             \* worker -> concrete CMLin sketch
          final            \* the concrete sketch parallel_add returns
PA == INSTANCE ParallelAdd
pavars == <<queue, fill, wst, wcur, wcnt, bag, part, rec, flushed, deq, mpc, closed, result>>
Keys == DOMAIN col
ItemOps(i) == [j \in 1..Len(ItemKeys[i]) |-> <<col[ItemKeys[i][j][1]], ItemKeys[i][j][2]>>]

Init ==
  /\ PA!Init
  /\ col \in ColChoices
  /\ wsk = [w \in 1..N |-> LinEmpty(W, D)]
  /\ final = LinEmpty(W, D)

\* the concrete counterpart of each abstract step
Contributed(w) == (bag'[w] \cup part'[w]) \ (bag[w] \cup part[w])       \* at most one item
RECURSIVE ConcreteRounds(_)
ConcreteRounds(arr) ==
  IF Len(arr) <= 1 THEN arr
  ELSE LET n == Len(arr)  half == (n + 1) \div 2
       IN  ConcreteRounds([j \in 1..half |-> IF 2 * j <= n THEN LinMerge(arr[2 * j - 1], arr[2 * j]) ELSE arr[2 * j - 1]])
Next ==
  /\ PA!Next
  /\ UNCHANGED col
  /\ wsk' = [w \in 1..N |->
               LET new == Contributed(w) IN
               IF new = {} THEN
                 \* the pill: n_added_records[1] += n_records
                 IF wst[w] = "pill" /\ wst'[w] = "exit0" THEN [wsk[w] EXCEPT !.nrec = @ + rec[w]] ELSE wsk[w]
               ELSE LinAddAll(wsk[w], ItemOps(CHOOSE i \in new : TRUE))]
  /\ final' = IF mpc = "merge" /\ mpc' = "returned" THEN ConcreteRounds([w \in 1..N |-> wsk[w]])[1] ELSE final
Spec == Init /\ [][Next]_<<pavars, col, wsk, final>>

-----------------------------------------------------------------------------
\* ground truth of the whole stream restricted to the items the result holds
Held == IF mpc = "returned" THEN result.bag \cup result.part ELSE {}
RECURSIVE SumFn(_, _)
SumFn(S, g) == IF S = {} THEN 0 ELSE LET x == CHOOSE y \in S : TRUE IN g[x] + SumFn(S \ {x}, g)
MultIn(i, k) == LET ops == ItemKeys[i]
                    J == {j \in 1..Len(ops) : ops[j][1] = k}
                IN  SumFn(J, [j \in J |-> ops[j][2]])
TruthOf(k) == SumFn(Held, [i \in Held |-> MultIn(i, k)])
CellLoad(r, c) == LET S == {k \in Keys : col[k][r] = c} IN SumFn(S, [k \in S |-> TruthOf(k)])
Refinement ==
  mpc = "returned" =>
    /\ final.nrec = result.nrec                                     \* n_records: sum of the returns
    /\ final.nadd = SumFn(Keys, [k \in Keys |-> TruthOf(k)])                          \* n_added: total multiplicity
    /\ \A k \in Keys :
          /\ LinEst(final, col[k]) >= TruthOf(k)                    \* C01 lower bound
          /\ \A r \in 1..D : LinEst(final, col[k]) <= CellLoad(r, col[k][r])   \* C01 collision bound
    /\ \A r \in 1..D, c \in 1..W : final.tbl[r][c] <= CellLoad(r, c)
PASafety == PA!ExactlyOnce /\ PA!ResultIsWholeStream /\ PA!RaiseKeepsOthers /\ PA!DeathNeverReturns
=============================================================================
