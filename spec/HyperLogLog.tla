----------------------------- MODULE HyperLogLog -----------------------------
(***************************************************************************)
(* State machine of a pool of HyperLogLog sketches with one precision and  *)
(* seed.  Registers are sparse functions (absent index = 0).               *)
(* place : key -> <<register index, rank>> for every key seen so far.      *)
(*         Hashing is a function: a key's placement never changes.  In     *)
(*         exhaustive runs the whole placement is chosen in Init; in trace *)
(*         runs it is computed with Hashes.tla (index = low p bits of      *)
(*         FastHash64(key, seed), rank = leading zeros of the remaining    *)
(*         64-p bits + 1) when the key first occurs.                       *)
(* sk    : slot -> registers;  keys : slot -> set of keys ever added to    *)
(*         the slot or to anything merged into it (ghost)                  *)
(***************************************************************************)
EXTENDS Naturals, Sequences, FiniteSets, SequencesExt, TLC
CONSTANTS Slots, PlaceChoices, AddKeys, Lists, NgramArgs
VARIABLES place, sk, keys, op
vars == <<place, sk, keys, op>>
view == <<place, sk, keys>>

Max2(a, b) == IF a >= b THEN a ELSE b
RegGet(r, i) == IF i \in DOMAIN r THEN r[i] ELSE 0
\* _add: registers[idx] = max(registers[idx], rank)
RegAdd(r, pl) == (pl[1] :> Max2(RegGet(r, pl[1]), pl[2])) @@ r
RECURSIVE RegAddAll(_, _)
RegAddAll(r, pls) == IF pls = <<>> THEN r ELSE RegAddAll(RegAdd(r, Head(pls)), Tail(pls))
\* _merge: element-wise maximum
RegMerge(a, b) == [i \in (DOMAIN a) \cup (DOMAIN b) |-> Max2(RegGet(a, i), RegGet(b, i))]
SetMax(S) == CHOOSE x \in S : \A y \in S : y <= x
\* the registers of a fresh sketch fed each key of K exactly once
RegOf(K) == [i \in {place[k][1] : k \in K} |-> SetMax({place[k][2] : k \in {j \in K : place[j][1] = i}})]

Windows(key, n) ==
  IF Len(key) <= n THEN <<key>>
  ELSE [i \in 1..(Len(key) - n + 1) |-> SubSeq(key, i, i + n - 1)]

Init ==
  /\ place \in PlaceChoices
  /\ sk   = [s \in Slots |-> <<>>]
  /\ keys = [s \in Slots |-> {}]
  /\ op   = [name |-> "init"]

\* ks: the keys a call adds, in order; np: placement of those keys (consistent with place)
AddMany(s, ks, np, o) ==
  /\ \A k \in DOMAIN np : k \in DOMAIN place => np[k] = place[k]
  /\ \A i \in 1..Len(ks) : ks[i] \in DOMAIN np
  /\ place' = np @@ place
  /\ sk'   = [sk EXCEPT ![s] = RegAddAll(@, [i \in 1..Len(ks) |-> np[ks[i]]])]
  /\ keys' = [keys EXCEPT ![s] = @ \cup {ks[i] : i \in 1..Len(ks)}]
  /\ op'   = o

Known(ks) == [k \in {ks[i] : i \in 1..Len(ks)} |-> place[k]]
\* add(key, value): the multiplicity is ignored
Add(s, k, v)        == AddMany(s, <<k>>, Known(<<k>>), [name |-> "add", s |-> s, k |-> k, v |-> v])
UpdateList(s, ks)   == AddMany(s, ks, Known(ks), [name |-> "update_list", s |-> s, ks |-> ks])
AddNgram(s, key, n) == AddMany(s, Windows(key, n), Known(Windows(key, n)),
                               [name |-> "add_ngram", s |-> s, key |-> key, n |-> n])

Merge(s, t) ==
  /\ sk'   = [sk EXCEPT ![s] = RegMerge(sk[s], sk[t])]
  /\ keys' = [keys EXCEPT ![s] = keys[s] \cup keys[t]]
  /\ op'   = [name |-> "merge", s |-> s, t |-> t]
  /\ UNCHANGED place
SaveLoad(s, t) ==
  /\ sk'   = [sk EXCEPT ![t] = sk[s]]
  /\ keys' = [keys EXCEPT ![t] = keys[s]]
  /\ op'   = [name |-> "saveload", s |-> s, t |-> t]
  /\ UNCHANGED place

Next ==
  \/ \E s \in Slots, k \in AddKeys, v \in {1, 3} : Add(s, k, v)
  \/ \E s \in Slots, ks \in Lists : UpdateList(s, ks)
  \/ \E s \in Slots, a \in NgramArgs : AddNgram(s, a[1], a[2])
  \/ \E s, t \in Slots : Merge(s, t)
  \/ \E s, t \in Slots : s # t /\ SaveLoad(s, t)
Spec == Init /\ [][Next]_vars

-----------------------------------------------------------------------------
(* C02: the register state depends only on the set of distinct keys *)
UnionSemantics == \A s \in Slots : sk[s] = RegOf(keys[s])
\* consequences, as state-function identities on every reachable pair / triple
MergeLaws ==
  \A s, t \in Slots :
    /\ RegMerge(sk[s], sk[t]) = RegMerge(sk[t], sk[s])          \* commutative
    /\ RegMerge(sk[s], sk[s]) = sk[s]                            \* idempotent
    /\ RegMerge(sk[s], sk[t]) = RegOf(keys[s] \cup keys[t])      \* partition independent
    /\ \A u \in Slots : RegMerge(RegMerge(sk[s], sk[t]), sk[u]) = RegMerge(sk[s], RegMerge(sk[t], sk[u]))
RanksPositive == \A s \in Slots : \A i \in DOMAIN sk[s] : sk[s][i] >= 1
=============================================================================
