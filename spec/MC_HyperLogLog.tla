--------------------------- MODULE MC_HyperLogLog ---------------------------
EXTENDS HyperLogLog, Json
CONSTANTS MSlots, MaxKeys, PlaceIdx
K1 == <<1>>
K2 == <<2>>
K3 == <<1, 2>>
K4 == <<2, 1>>
MKeys == {K1, K2, K3, K4}
\* two register indices x ranks {1, 2, 9 (the maximum)}; the first key is pinned to index 0
MPlaceAll == { f \in [MKeys -> ({0, 1} \X {1, 2, 9})] : f[K1][1] = 0 }
MPlaceSeq == SetToSeq(MPlaceAll)
MPlaceChoices == IF PlaceIdx = {} THEN MPlaceAll ELSE { MPlaceSeq[((i - 1) % Len(MPlaceSeq)) + 1] : i \in PlaceIdx }
MSlotSet == 1..MSlots
MLists == { <<K1, K2, K1>>, <<K3, K4>>, <<>> }
MNgramArgs == { << <<1, 2, 1>>, 2>>, << <<1, 2>>, 1>>, << <<1, 2>>, 2>>, << <<2, 1>>, 3>> }
MNone == {}
PlaceSeq == LET ks == SetToSeq(DOMAIN place) IN [i \in 1..Len(ks) |-> <<ks[i], place[ks[i]]>>]
RegSeq(r) == LET d == SetToSeq(DOMAIN r) IN [i \in 1..Len(d) |-> <<d[i], r[d[i]]>>]
LogEdge == PrintT(<<"EDGE", ToJson([e |-> PlaceSeq, f |-> [s \in Slots |-> RegSeq(sk[s])], o |-> op',
                                    t |-> [s \in Slots |-> RegSeq(sk'[s])]])>>)
Bound == \A s \in Slots : Cardinality(keys[s]) <= MaxKeys
=============================================================================
