------------------------------- MODULE CMLin -------------------------------
(***************************************************************************)
(* Functional kernel of sketchnu.countmin.CountMinLinear: what each        *)
(* numba kernel does to one sketch value.                                  *)
(*   sketch == [tbl  : 1..D -> 1..W -> Num,   (cms, row major)             *)
(*              nadd : Num,                  (n_added_records[0])          *)
(*              nrec : Num]                  (n_added_records[1])          *)
(* `cols' is the key's column in every row (1-based), i.e. the `buckets'   *)
(* scratch array that _query_linear fills: cols[r] = fasthash64(key,r-1)   *)
(* % W + 1.  The kernel is independent of how cols was obtained.           *)
(***************************************************************************)
EXTENDS Num, FiniteSets, TLC
CONSTANT NCap            \* counter ceiling: 2^32-1 in the code

LinEmpty(W, D) == [tbl  |-> [r \in 1..D |-> [c \in 1..W |-> NZero]],
                   nadd |-> NZero, nrec |-> NZero]

\* _query_linear: minimum over the rows, starting from the ceiling
\* (an accumulating recursion with forced intermediate values: a LET-defined recursive function
\* m[r] == NMin(m[r-1], ..) re-evaluates m[r-1] for every reference, 2^depth evaluations)
RECURSIVE LinEstFrom(_, _, _, _)
LinEstFrom(sk, cols, r, acc) ==
  IF r > Len(cols) THEN acc
  ELSE LinEstFrom(sk, cols, r + 1, TLCEval(NMin(acc, sk.tbl[r][cols[r]])))
LinEst(sk, cols) == LinEstFrom(sk, cols, 1, NCap)

\* CountMinLinear.add(key, v0) = min(v0, ceiling) then _add_linear
LinAdd(sk, cols, v0) ==
  LET v == NMin(v0, NCap)
      m == LinEst(sk, cols)
  IN  IF m = NCap THEN sk                      \* early return, n_added untouched
      ELSE LET v1  == NMin(v, NSub(NCap, m))   \* never exceed the ceiling
               new == NAdd(m, v1)
           IN  [sk EXCEPT
                  !.tbl  = [r \in DOMAIN sk.tbl |-> [c \in DOMAIN sk.tbl[r] |->
                              IF c = cols[r] /\ NLt(sk.tbl[r][c], new)
                              THEN new ELSE sk.tbl[r][c]]],
                  !.nadd = NAdd(sk.nadd, v1)]

\* fold of LinAdd over a sequence of <<cols, v>> pairs (update / add_ngram)
RECURSIVE LinAddAll(_, _)
LinAddAll(sk, cvs) ==
  IF cvs = <<>> THEN sk
  ELSE LinAddAll(TLCEval(LinAdd(sk, Head(cvs)[1], Head(cvs)[2])), Tail(cvs))   \* (forced: a chain of lazy tables is re-evaluated per cell)

\* _merge_linear: element-wise saturating sum; both bookkeeping counters summed
LinMerge(a, b) ==
  [tbl  |-> [r \in DOMAIN a.tbl |-> [c \in DOMAIN a.tbl[r] |->
               NSatAdd(a.tbl[r][c], b.tbl[r][c], NCap)]],
   nadd |-> NAdd(a.nadd, b.nadd),
   nrec |-> NAdd(a.nrec, b.nrec)]

\* the windows add_ngram feeds to add(): the key itself when Len(key) <= n
Windows(key, n) ==
  IF Len(key) <= n THEN <<key>>
  ELSE [i \in 1..(Len(key) - n + 1) |-> SubSeq(key, i, i + n - 1)]
=============================================================================
