INIT Init
NEXT Next
INVARIANT Anchored
CHECK_DEADLOCK FALSE
