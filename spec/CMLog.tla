------------------------------- MODULE CMLog -------------------------------
(***************************************************************************)
(* Functional kernel of CountMinLog16 / CountMinLog8 (probabilistic log    *)
(* counters with conservative update).                                     *)
(*   sketch == [tbl : 1..D -> 1..W -> 0..UMax (counters), nadd, nrec]      *)
(* A configuration cfg == [UMax, NR, MaxCount, Val, P]:                    *)
(*   Val[c]  decoded value of counter c  (Val[c] = c for c <= NR)          *)
(*   P[k]    probability base^-k that a counter holding NR+k advances      *)
(* Val, P, draws, MaxCount are Num values (integers scaled by a power of   *)
(* two in traces).  Counters are plain TLC integers.                       *)
(***************************************************************************)
EXTENDS Num, FiniteSets

LogEmpty(W, D) == [tbl |-> [r \in 1..D |-> [c \in 1..W |-> 0]], nadd |-> NZero, nrec |-> NZero]

LogMin(sk, cols, UMax) ==
  LET m[r \in 0..Len(cols)] ==
        IF r = 0 THEN UMax
        ELSE IF sk.tbl[r][cols[r]] < m[r - 1] THEN sk.tbl[r][cols[r]] ELSE m[r - 1]
  IN  m[Len(cols)]

\* _log_counter: `v' unit increments starting from counter c, consuming draws in order.
\* Result <<counter, number of draws consumed>>.  Stops at UMax; below NR no draw is
\* needed; at c >= NR one draw u is consumed and the counter advances iff u < P[c - NR].
RECURSIVE LogCounter(_, _, _, _, _)
LogCounter(cfg, c, v, draws, used) ==
  IF v = 0 \/ c >= cfg.UMax THEN <<c, used>>
  ELSE IF c < cfg.NR THEN LogCounter(cfg, c + 1, v - 1, draws, used)
  ELSE IF used + 1 > Len(draws) THEN <<c, used + v>>   \* more draws needed than the execution offers: the
                                                         \* caller sees used > Len(draws) and rejects
  ELSE LET u == draws[used + 1] IN
       LogCounter(cfg, IF NLt(u, cfg.P[c - cfg.NR]) THEN c + 1 ELSE c, v - 1, draws, used + 1)

\* _add_log16/_add_log8: n_added += v (always); conservative update with the new counter.
\* Returns [sk, used].
LogAdd(cfg, sk, cols, v, vnum, draws) ==
  LET m   == LogMin(sk, cols, cfg.UMax)
      res == LogCounter(cfg, m, v, draws, 0)
      new == res[1]
  IN  [sk |-> [sk EXCEPT
                 !.nadd = NAdd(sk.nadd, vnum),
                 !.tbl  = [r \in DOMAIN sk.tbl |-> [c \in DOMAIN sk.tbl[r] |->
                             IF c = cols[r] /\ sk.tbl[r][c] < new THEN new ELSE sk.tbl[r][c]]]],
       used |-> res[2]]

\* update(list) / update(dict) / add_ngram: a fold of LogAdd that threads the draws;
\* cvs is a sequence of <<cols, v, vnum>>
RECURSIVE LogAddAll(_, _, _, _, _)
LogAddAll(cfg, sk, cvs, draws, used) ==
  IF cvs = <<>> THEN [sk |-> sk, used |-> used]
  ELSE LET r == LogAdd(cfg, sk, Head(cvs)[1], Head(cvs)[2], Head(cvs)[3], SubSeq(draws, used + 1, Len(draws)))
       IN  LogAddAll(cfg, r.sk, Tail(cvs), draws, used + r.used)

Windows(key, n) ==
  IF Len(key) <= n THEN <<key>>
  ELSE [i \in 1..(Len(key) - n + 1) |-> SubSeq(key, i, i + n - 1)]

\* _merge_log*: the merged counter r of cells a, b.  Ties and values within 2^-30
\* (relative) of the midpoint between two neighbours may go either way.
MergeTarget(cfg, a, b) == NAdd(cfg.Val[a], cfg.Val[b])
Twice(x) == NAdd(x, x)
Tol(x) == NOf(0)     \* overridden in trace configurations (relative 2^-30)
LogMergeOK(cfg, a, b, r, tol(_)) ==
  LET v == MergeTarget(cfg, a, b) IN
  IF NLeq(v, cfg.Val[cfg.NR]) THEN r = a + b                 \* inside the reserved range: exact
  ELSE IF NLeq(cfg.MaxCount, v) THEN r = cfg.UMax            \* at or beyond max_count: the ceiling
  ELSE /\ r \in cfg.NR..cfg.UMax
       /\ r > 0 =>
            LET mid == NAdd(cfg.Val[r - 1], cfg.Val[r]) IN NLeq(mid, NAdd(Twice(v), tol(mid)))
       /\ r < cfg.UMax =>
            LET mid == NAdd(cfg.Val[r], cfg.Val[r + 1]) IN NLeq(Twice(v), NAdd(mid, tol(mid)))
=============================================================================
