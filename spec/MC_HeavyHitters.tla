--------------------------- MODULE MC_HeavyHitters ---------------------------
EXTENDS HeavyHitters, IntNum, Json, IOUtils
CONSTANTS MW, MD, ML, MCap, MaxTruth, MSlots, EnvIdx, EnvFromFile

E   == <<>>
Z   == <<0>>
A   == <<1>>
AZ  == <<1, 0>>
AZA == <<1, 0, 1>>          \* longer than L = 2: same identity as AZ
MIds == {E, Z, A, AZ}
MEnvAll ==
  { [W |-> MW, D |-> MD, L |-> ML, col |-> c] :
      c \in { f \in [MIds -> [1..MD -> 1..MW]] : \A r \in 1..MD : f[E][r] = 1 } }
MEnvSeq == SetToSeq(MEnvAll)
\* placements observed on the real hash function (spec -> code replay), as
\* [[W, D, L, col: [[id, cols], ...]], ...]
FileEnvs == LET es == JsonDeserialize(IOEnv.ENV_FILE) IN
            { [W |-> es[i].W, D |-> es[i].D, L |-> es[i].L,
               col |-> [id \in {es[i].col[j][1] : j \in 1..Len(es[i].col)} |->
                          es[i].col[CHOOSE j \in 1..Len(es[i].col) : es[i].col[j][1] = id][2]]] :
              i \in 1..Len(es) }
MEnvChoices == IF EnvFromFile THEN FileEnvs
               ELSE IF EnvIdx = {} THEN MEnvAll
               ELSE { MEnvSeq[((i - 1) % Len(MEnvSeq)) + 1] : i \in EnvIdx }
MSlotSet   == 1..MSlots
MAddKeys   == {E, Z, A, AZ, AZA}
MAddVals   == {0, 1, 2, MCap + 1}
MAddValsSmall == {1, 2}
MLists     == { <<A, Z>>, <<E, AZA, E>> }
MDicts     == { << <<A, 2>>, <<AZ, 1>> >>, << <<Z, MCap>>, <<E, 1>> >> }
MNgramArgs == { <<AZ, 1>>, <<AZ, 2>>, <<AZ, 3>>, << <<0, 0, 1>>, 1>> }
MRecVals   == {1}
MNone      == {}
MQueryKs   == {0, 1, 2}
MQueryThrs == {-1, 0, 1, 2}
MQueryKsSmall == {0, 1}
MQueryThrsSmall == {0, 2}

TotalTruth == LET ss == SetToSeq(Slots) IN NSumSeq([i \in 1..Len(ss) |-> TruthSum(ss[i])])
Bound      == TotalTruth <= MaxTruth /\ \A s \in Slots : sk[s].nrec <= 1
EnvSeq == [W |-> env.W, D |-> env.D, L |-> env.L,
           col |-> [i \in 1..Len(IdSeq) |-> <<IdSeq[i], env.col[IdSeq[i]]>>]]
LogEdge == PrintT(<<"EDGE", ToJson([e |-> EnvSeq, f |-> sk, fc |-> cache, o |-> op', t |-> sk', tc |-> cache'])>>)
=============================================================================
