----------------------------- MODULE ParallelAdd -----------------------------
(***************************************************************************)
(* helpers.parallel_add: a bounded queue (capacity 3N), a filler process   *)
(* that puts the K items and then one poison pill per worker, N workers    *)
(* that attach to their own shared-memory sketches, take items from the    *)
(* queue and run the user callback, a main process that polls the exit     *)
(* codes, joins, and merges the workers' sketches pairwise in rounds.      *)
(* One action per blocking point of the code.  Sketch contents are         *)
(* abstract: the set of items whose contribution a sketch holds (that the  *)
(* real merges implement union / sum is C01, C02, C03, C09).               *)
(*                                                                         *)
(* Scenario constants: Fault[i] says what the callback does on item i      *)
(* ("ok" | "before": raises before touching the sketches | "after": raises *)
(* after updating them); DieAt = <<w, k>> makes worker w die (exit code 1) *)
(* on its k-th item (<<0, 0>>: nobody dies); Assign, when not <<>>, fixes  *)
(* which worker performs each successive dequeue (used to replay one       *)
(* schedule and to validate recorded runs).                                *)
(***************************************************************************)
EXTENDS Naturals, Sequences, FiniteSets, TLC, Json
CONSTANTS N, K, Fault, DieAt, Assign, Ret,
          MergerDies     \* 0, or k > 0: the k-th merge process spawned by parallel_merging is killed (exit code < 0)
VARIABLES queue,     \* FIFO of item ids 1..K and Pill
          fill,      \* [idx, st]  st \in {"running", "done", "killed"}
          wst,       \* worker state: "init" | "ready" | "busy" | "pill" | "exit0" | "dead" | "killed"
          wcur,      \* item a busy worker holds
          wcnt,      \* items dequeued so far by the worker
          bag,       \* worker -> items fully contributed to its sketches
          part,      \* worker -> items possibly partly contributed (callback raised after updating)
          rec,       \* worker -> sum of callback returns (local variable n_records)
          flushed,   \* worker -> n_records written into its sketches at the pill
          deq,       \* history: sequence of <<worker, item>> dequeues
          mpc,       \* main: "monitor" | "joinfill" | "joinworkers" | "prelog" | "merge" | "returned" | "raised"
          closed,    \* both queues closed by the monitor
          result     \* what parallel_add returns
vars == <<queue, fill, wst, wcur, wcnt, bag, part, rec, flushed, deq, mpc, closed, result>>
W == 1..N
Items == 1..K
Cap == 3 * N
Pill == 0               \* the poison pill (None) in the queue; items are 1..K
Running(w) == wst[w] \in {"init", "ready", "busy", "pill"}       \* exitcode is None
Exited(w)  == ~Running(w)
Bad(w)     == wst[w] \in {"dead", "killed"}                      \* exitcode not in {None, 0}

Init ==
  /\ queue = <<>> /\ fill = [idx |-> 1, st |-> "running"]
  /\ wst = [w \in W |-> "init"] /\ wcur = [w \in W |-> 0] /\ wcnt = [w \in W |-> 0]
  /\ bag = [w \in W |-> {}] /\ part = [w \in W |-> {}]
  /\ rec = [w \in W |-> 0] /\ flushed = [w \in W |-> 0]
  /\ deq = <<>> /\ mpc = "monitor" /\ closed = FALSE /\ result = [st |-> "none"]

(* ---- filler process: _fill_queue ---- *)
FillPut ==
  /\ fill.st = "running" /\ Len(queue) < Cap /\ ~closed
  /\ queue' = Append(queue, IF fill.idx <= K THEN fill.idx ELSE Pill)
  /\ fill' = IF fill.idx = K + N THEN [idx |-> fill.idx + 1, st |-> "done"] ELSE [fill EXCEPT !.idx = @ + 1]
  /\ UNCHANGED <<wst, wcur, wcnt, bag, part, rec, flushed, deq, mpc, closed, result>>

(* ---- worker w: _worker ---- *)
WStart(w) ==      \* attach_shared_memory for every sketch
  /\ wst[w] = "init" /\ wst' = [wst EXCEPT ![w] = "ready"]
  /\ UNCHANGED <<queue, fill, wcur, wcnt, bag, part, rec, flushed, deq, mpc, closed, result>>
WGet(w) ==        \* in_queue.get()
  /\ wst[w] = "ready" /\ queue # <<>>
  /\ Assign # <<>> => (Len(deq) < Len(Assign) /\ Assign[Len(deq) + 1] = w)
  /\ LET x == Head(queue) IN
       /\ queue' = Tail(queue)
       /\ deq' = Append(deq, <<w, x>>)
       /\ IF x = Pill THEN wst' = [wst EXCEPT ![w] = "pill"] /\ UNCHANGED <<wcur, wcnt>>
          ELSE /\ wst' = [wst EXCEPT ![w] = "busy"] /\ wcur' = [wcur EXCEPT ![w] = x]
               /\ wcnt' = [wcnt EXCEPT ![w] = @ + 1]
  /\ UNCHANGED <<fill, bag, part, rec, flushed, mpc, closed, result>>
WProcess(w) ==    \* process_q_item(q_item, *local_sketches) inside try/except Exception
  /\ wst[w] = "busy"
  /\ LET i == wcur[w] IN
     IF DieAt = <<w, wcnt[w]>>
     THEN /\ wst' = [wst EXCEPT ![w] = "dead"]                 \* the process dies (OOM kill, os._exit ...)
          /\ part' = [part EXCEPT ![w] = @ \cup {i}]
          /\ UNCHANGED <<bag, rec>>
     ELSE /\ wst' = [wst EXCEPT ![w] = "ready"]
          /\ CASE Fault[i] = "ok"     -> bag' = [bag EXCEPT ![w] = @ \cup {i}] /\ rec' = [rec EXCEPT ![w] = @ + Ret[i]]
                                          /\ UNCHANGED part
               [] Fault[i] = "before" -> UNCHANGED <<bag, part, rec>>           \* n_recs = 0
               [] Fault[i] = "after"  -> part' = [part EXCEPT ![w] = @ \cup {i}] /\ UNCHANGED <<bag, rec>>
  /\ wcur' = [wcur EXCEPT ![w] = 0]
  /\ UNCHANGED <<queue, fill, wcnt, flushed, deq, mpc, closed, result>>
WPill(w) ==       \* n_added_records[1] += n_records on every sketch that has it; return (exit code 0)
  /\ wst[w] = "pill"
  /\ flushed' = [flushed EXCEPT ![w] = rec[w]]
  /\ wst' = [wst EXCEPT ![w] = "exit0"]
  /\ UNCHANGED <<queue, fill, wcur, wcnt, bag, part, rec, deq, mpc, closed, result>>

(* ---- main process ---- *)
\* one pass of the polling loop
MonitorPass ==
  /\ mpc = "monitor"
  /\ LET anyNone == \E w \in W : Running(w)
         anyBad  == \E w \in W : Bad(w)
     IN  /\ IF anyBad
            THEN /\ wst' = [w \in W |-> IF Running(w) THEN "killed" ELSE wst[w]]   \* worker.kill() for all
                 /\ fill' = IF fill.st = "running" THEN [fill EXCEPT !.st = "killed"] ELSE fill
                 /\ closed' = TRUE                                               \* queue.close(); log_queue.close()
            ELSE UNCHANGED <<wst, fill, closed>>
         /\ mpc' = IF anyNone THEN "monitor" ELSE "joinfill"
  /\ UNCHANGED <<queue, wcur, wcnt, bag, part, rec, flushed, deq, result>>
JoinFill ==       \* fill_queue_process.join()
  /\ mpc = "joinfill" /\ fill.st \in {"done", "killed"} /\ mpc' = "joinworkers"
  /\ UNCHANGED <<queue, fill, wst, wcur, wcnt, bag, part, rec, flushed, deq, closed, result>>
JoinWorkers ==    \* p.join() for every worker
  /\ mpc = "joinworkers" /\ \A w \in W : Exited(w) /\ mpc' = "prelog"
  /\ UNCHANGED <<queue, fill, wst, wcur, wcnt, bag, part, rec, flushed, deq, closed, result>>
PreLog ==         \* log_queue.put(...) raises ValueError on a closed queue
  /\ mpc = "prelog"
  /\ IF closed THEN mpc' = "raised" /\ result' = [st |-> "raised"]
               ELSE mpc' = "merge" /\ UNCHANGED result
  /\ UNCHANGED <<queue, fill, wst, wcur, wcnt, bag, part, rec, flushed, deq, closed>>

\* parallel_merging: rounds of pairwise merges (2i into 2i+1 ... as the code indexes them)
RECURSIVE MergeRounds(_)
MergeRounds(arr) ==
  IF Len(arr) <= 1 THEN arr
  ELSE LET n    == Len(arr)
           half == (n + 1) \div 2
           nxt  == [j \in 1..half |->
                      IF 2 * j <= n
                      THEN [b |-> arr[2 * j - 1].b \cup arr[2 * j].b, p |-> arr[2 * j - 1].p \cup arr[2 * j].p,
                            r |-> arr[2 * j - 1].r + arr[2 * j].r]
                      ELSE arr[2 * j - 1]]                           \* odd one carried to the next round
       IN  MergeRounds(nxt)
\* number of merge processes parallel_merging spawns for n sketches: one per pair per round
RECURSIVE NMergers(_)
NMergers(n) == IF n <= 1 THEN 0 ELSE (n \div 2) + NMergers((n + 1) \div 2)
\* a merge process dies (killed by the OOM killer ...): p.exitcode < 0 => RuntimeError, no result
MergeFails ==
  /\ mpc = "merge" /\ MergerDies > 0 /\ MergerDies <= NMergers(N)
  /\ mpc' = "raised" /\ result' = [st |-> "raised"]
  /\ UNCHANGED <<queue, fill, wst, wcur, wcnt, bag, part, rec, flushed, deq, closed>>
MergeAndReturn ==
  /\ mpc = "merge" /\ ~(MergerDies > 0 /\ MergerDies <= NMergers(N))
  /\ LET fin == MergeRounds([w \in W |-> [b |-> bag[w], p |-> part[w], r |-> flushed[w]]])[1]
     IN  result' = [st |-> "returned", bag |-> fin.b, part |-> fin.p, nrec |-> fin.r]
  /\ mpc' = "returned"
  /\ UNCHANGED <<queue, fill, wst, wcur, wcnt, bag, part, rec, flushed, deq, closed>>

Terminated == mpc \in {"returned", "raised"}
Next ==
  \/ FillPut
  \/ \E w \in W : WStart(w) \/ WGet(w) \/ WProcess(w) \/ WPill(w)
  \/ MonitorPass \/ JoinFill \/ JoinWorkers \/ PreLog \/ MergeAndReturn \/ MergeFails
  \/ (Terminated /\ UNCHANGED vars)
Spec == Init /\ [][Next]_vars
Fairness ==
  /\ WF_vars(FillPut) /\ WF_vars(MonitorPass) /\ WF_vars(JoinFill) /\ WF_vars(JoinWorkers)
  /\ WF_vars(PreLog) /\ WF_vars(MergeAndReturn) /\ WF_vars(MergeFails)
  /\ \A w \in W : WF_vars(WStart(w)) /\ WF_vars(WGet(w)) /\ WF_vars(WProcess(w)) /\ WF_vars(WPill(w))
FairSpec == Spec /\ Fairness

-----------------------------------------------------------------------------
OkItems     == {i \in Items : Fault[i] = "ok"}
BeforeItems == {i \in Items : Fault[i] = "before"}
RECURSIVE SumRet(_)
SumRet(S) == IF S = {} THEN 0 ELSE LET i == CHOOSE x \in S : TRUE IN Ret[i] + SumRet(S \ {i})
NoDeath == DieAt = <<0, 0>>
(* C08 *)
DequeuedOnce == \A a, b \in 1..Len(deq) : (a # b /\ deq[a][2] # Pill) => deq[a][2] # deq[b][2]
OnePillEach  == \A w \in W : Cardinality({a \in 1..Len(deq) : deq[a] = <<w, Pill>>}) <= 1
ExactlyOnce ==
  /\ DequeuedOnce /\ OnePillEach
  /\ mpc = "returned" =>
       /\ {deq[a][2] : a \in 1..Len(deq)} = Items \cup {Pill} \/ (K = 0 /\ N >= 1)
       /\ \A w \in W : <<w, Pill>> \in {deq[a] : a \in 1..Len(deq)}
       /\ Len(deq) = K + N
ResultIsWholeStream ==
  (mpc = "returned" /\ OkItems = Items) => (result.bag = Items /\ result.part = {} /\ result.nrec = SumRet(Items))
(* C19 *)
RaiseKeepsOthers ==
  mpc = "returned" =>
    /\ OkItems \subseteq result.bag                      \* every other item's full contribution
    /\ result.bag \cap BeforeItems = {}
    /\ result.bag \cup result.part \subseteq Items
    /\ result.nrec = SumRet(OkItems)                     \* n_records counts only the successful items
DeathNeverReturns == (\E w \in W : wst[w] = "dead") => mpc # "returned"
MergerDeathNeverReturns == (MergerDies > 0 /\ MergerDies <= NMergers(N)) => mpc # "returned"
DeathRaises == (mpc = "returned") => NoDeath \/ \A w \in W : wst[w] # "dead"
QueueBounded == Len(queue) <= Cap
Termination == <>Terminated
RECURSIVE SetToSortedSeq(_)
SetToSortedSeq(S) == IF S = {} THEN <<>> ELSE LET m == CHOOSE x \in S : \A y \in S : x <= y IN <<m>> \o SetToSortedSeq(S \ {m})
ToJsonLike(d) == [a \in 1..Len(d) |-> d[a][1]]      \* the worker of every successive dequeue
\* terminal outcomes, printed for the spec -> code replay
TerminalOutcome == Terminated => PrintT(<<"OUTCOME", ToJson(
     [assign |-> ToJsonLike(deq), st |-> result.st,
      nrec |-> IF result.st = "returned" THEN result.nrec ELSE 0,
      bag  |-> IF result.st = "returned" THEN SetToSortedSeq(result.bag) ELSE <<>>,
      part |-> IF result.st = "returned" THEN SetToSortedSeq(result.part) ELSE <<>>])>>)
=============================================================================
