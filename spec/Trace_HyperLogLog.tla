------------------------- MODULE Trace_HyperLogLog -------------------------
(***************************************************************************)
(* Trace validation of the real HyperLogLog class.  Each trace fixes the   *)
(* precision p and the seed (8 little-endian bytes); every key's placement *)
(* is computed here with Hashes.tla -- the third sentence of C02 -- inside *)
(* the action that first adds it.  Recorded registers are sparse lists of  *)
(* <<index, rank>>.  query() results (recorded as text) must be a function *)
(* of the register state.                                                  *)
(***************************************************************************)
EXTENDS HyperLogLog, Hashes, Json, IOUtils
VARIABLES tid, l, ok, qmemo
tvars == <<vars, tid, l, ok, qmemo>>
Traces == JsonDeserialize(IOEnv.TRACE_FILE)
TSlots == 1..(CHOOSE m \in 1..64 : (\A i \in 1..Len(Traces) : Traces[i].NS <= m) /\ (m = 1 \/ \E i \in 1..Len(Traces) : Traces[i].NS = m))   \* as many slots as the largest trace of the batch uses
Events == Traces[tid].events
P      == Traces[tid].p
Seed   == Traces[tid].seed

PlaceOfKey(k, h) == <<HllIdx(h, P), HllRank(h, P)>>
Placements(ks) == [k \in {ks[i] : i \in 1..Len(ks)} |-> PlaceOfKey(k, FastHash64(k, Seed))]
FlatWindows(keys_, n) == FlattenSeq([i \in 1..Len(keys_) |-> Windows(keys_[i], n)])

TInit ==
  /\ tid \in 1..Len(Traces) /\ l = 1 /\ ok = TRUE /\ qmemo = {}
  /\ place = <<>>
  /\ sk   = [s \in Slots |-> <<>>]
  /\ keys = [s \in Slots |-> {}]
  /\ op   = [name |-> "init"]

AddSeq(s, ks, o) == AddMany(s, ks, Placements(ks), o)
Consume(e) ==
  \/ e.ev = "add"          /\ AddSeq(e.s, <<e.k>>, [name |-> "add", s |-> e.s])
  \/ e.ev = "update_list"  /\ AddSeq(e.s, e.ks, [name |-> "update_list", s |-> e.s])
  \/ e.ev = "update_dict"  /\ AddSeq(e.s, e.ks, [name |-> "update_dict", s |-> e.s])
  \/ e.ev = "add_ngram"    /\ AddSeq(e.s, Windows(e.key, e.n), [name |-> "add_ngram", s |-> e.s])
  \/ e.ev = "update_ngram" /\ AddSeq(e.s, FlatWindows(e.keys, e.n), [name |-> "update_ngram", s |-> e.s])
  \/ e.ev = "merge"        /\ Merge(e.s, e.t)
  \/ e.ev = "saveload"     /\ SaveLoad(e.s, e.t)
  \/ e.ev = "query"        /\ UNCHANGED <<place, sk, keys>> /\ op' = [name |-> "query", s |-> e.s]

RegMatches(r, logged) ==
  /\ DOMAIN r = {logged[i][1] : i \in 1..Len(logged)}
  /\ \A i \in 1..Len(logged) : r[logged[i][1]] = logged[i][2]
Matches(e) ==
  /\ "post" \in DOMAIN e => \A s \in 1..Len(e.post) : RegMatches(sk'[s], e.post[s])
  \* query() is a function of the registers: same registers, same answer
  /\ e.ev = "query" => /\ \A q \in qmemo : q[1] = sk[e.s] => q[2] = e.out
                       /\ e.out = e.fresh      \* and equals the answer of a fresh sketch with these registers

TStep ==
  /\ l <= Len(Events)
  /\ LET e == Events[l] IN
       /\ Consume(e)
       /\ ok' = Matches(e)
       /\ qmemo' = IF e.ev = "query" THEN qmemo \cup {<<sk[e.s], e.out>>} ELSE qmemo
       /\ IF Matches(e) THEN TRUE ELSE PrintT(<<"MISMATCH", tid, l, ToJson([ev |-> e.ev, spec |-> [s \in 1..(IF "post" \in DOMAIN e THEN Len(e.post) ELSE 0) |->
               LET d == SetToSeq(DOMAIN sk'[s]) IN [i \in 1..Len(d) |-> <<d[i], sk'[s][d[i]]>>]]])>>)
  /\ l' = l + 1 /\ tid' = tid
TDone == l > Len(Events) /\ UNCHANGED tvars
TSpec == TInit /\ [][TStep \/ TDone]_tvars
TraceOK == ok
=============================================================================
