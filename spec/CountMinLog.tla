---------------------------- MODULE CountMinLog ----------------------------
(***************************************************************************)
(* State machine of a pool of log-counter count-min sketches (CountMinLog8 *)
(* / CountMinLog16: two instantiations of cfg.UMax) with the random-batch  *)
(* sub-machine and ghost truth.                                            *)
(* env  : [W, D, col, cfg]   placement and counter configuration (CMLog)   *)
(* sk   : slot -> sketch     rnd : slot -> [ptr, batch, content]           *)
(*   content = the B uniform draws of the current batch, ptr = how many of *)
(*   them are consumed; when ptr = B the next draw refills the batch       *)
(*   (batch + 1, fresh content, ptr = 1).  used (ghost) = the set of       *)
(*   <<batch, position>> consumed so far: a draw is never recycled.        *)
(***************************************************************************)
EXTENDS CMLog, SequencesExt, TLC
CONSTANTS Slots, EnvChoices, AddVals, DrawVals, B, MTol(_)
VARIABLES env, sk, rnd, truth, used, op
vars == <<env, sk, rnd, truth, used, op>>
view == <<env, sk, rnd, truth, used>>

Cfg     == env.cfg
Keys    == DOMAIN env.col
KeySeq  == SetToSeq(Keys)
Col(k)  == env.col[k]
MinC(s, k) == LogMin(sk[s], Col(k), Cfg.UMax)          \* the key's smallest counter
EstV(s, k) == Cfg.Val[MinC(s, k)]                      \* query(): its decoded value

Init ==
  /\ env \in EnvChoices
  /\ sk    = [s \in Slots |-> LogEmpty(env.W, env.D)]
  /\ \E c0 \in [1..B -> DrawVals] : rnd = [s \in Slots |-> [ptr |-> 0, batch |-> 0, content |-> c0]]
  /\ truth = [s \in Slots |-> [k \in DOMAIN env.col |-> 0]]
  /\ used  = [s \in Slots |-> {}]
  /\ op    = [name |-> "init"]

\* add(key, v), v a small natural.  `avail' are the draws the call can consume, in order:
\* the unconsumed rest of the current batch followed by the batch generated if the add runs
\* over its end (at most one refill per add); `newcontent' is the content kept afterwards.
AddMany(s, kvs, avail, newcontent, o) ==
  LET r0     == rnd[s]
      \* kvs[i] = <<key, v>> or <<key, v, vnum>>: v is the number of unit increments attempted (a TLC
      \* integer), vnum the multiplicity added to n_added when it exceeds TLC's integers (a multiplicity
      \* of 2^32+7 behaves like any v >= UMax once every draw succeeds, but n_added grows by all of it)
      res    == LogAddAll(Cfg, sk[s], [i \in 1..Len(kvs) |-> <<Col(kvs[i][1]), kvs[i][2],
                                         IF Len(kvs[i]) = 3 THEN kvs[i][3] ELSE NOf(kvs[i][2])>>], avail, 0)
      j      == res.used
      refill == r0.ptr + j > B
      positions == IF refill
                   THEN {<<r0.batch, i>> : i \in (r0.ptr + 1)..B} \cup {<<r0.batch + 1, i>> : i \in 1..(r0.ptr + j - B)}
                   ELSE {<<r0.batch, i>> : i \in (r0.ptr + 1)..(r0.ptr + j)}
      RECURSIVE TruthAll(_, _)
      TruthAll(tr, xs) == IF xs = <<>> THEN tr
                          ELSE TruthAll([tr EXCEPT ![Head(xs)[1]] = @ + Head(xs)[2]], Tail(xs))
  IN  /\ sk'    = [sk EXCEPT ![s] = res.sk]
      /\ rnd'   = [rnd EXCEPT ![s] = IF refill
                                     THEN [ptr |-> r0.ptr + j - B, batch |-> r0.batch + 1, content |-> newcontent]
                                     ELSE [r0 EXCEPT !.ptr = r0.ptr + j]]
      /\ truth' = [truth EXCEPT ![s] = TruthAll(@, kvs)]
      /\ used'  = [used EXCEPT ![s] = @ \cup positions]
      /\ op'    = [o EXCEPT !.draws = j, !.refill = refill, !.fresh_positions = positions \cap used[s] = {}]
      /\ UNCHANGED env
OpRec(name, s) == [name |-> name, s |-> s, k |-> <<>>, v |-> 0, draws |-> 0, refill |-> FALSE, fresh_positions |-> TRUE]
Add(s, k, v, avail, newcontent) ==
  AddMany(s, <<<<k, v>>>>, avail, newcontent, [OpRec("add", s) EXCEPT !.k = k, !.v = v])
AddBig(s, k, v, vnum, avail, newcontent) ==
  AddMany(s, <<<<k, v, vnum>>>>, avail, newcontent, [OpRec("add_big", s) EXCEPT !.k = k, !.v = v])
\* update(list): add(key) per element; update(dict): add(key, value) per item;
\* add_ngram / update_ngram: add(window) per window -- all through the one fold
UpdateList(s, ks, avail, nc) == AddMany(s, [i \in 1..Len(ks) |-> <<ks[i], 1>>], avail, nc, OpRec("update_list", s))
UpdateDict(s, kvs, avail, nc) == AddMany(s, kvs, avail, nc, OpRec("update_dict", s))
AddNgram(s, key, n, avail, nc) ==
  LET w == Windows(key, n) IN AddMany(s, [i \in 1..Len(w) |-> <<w[i], 1>>], avail, nc, OpRec("add_ngram", s))
UpdateNgram(s, keys, n, avail, nc) ==
  LET w == FlattenSeq([i \in 1..Len(keys) |-> Windows(keys[i], n)])
  IN  AddMany(s, [i \in 1..Len(w) |-> <<w[i], 1>>], avail, nc, OpRec("update_ngram", s))

\* what helpers._worker does on the poison pill
AddRecords(s, n) ==
  /\ sk' = [sk EXCEPT ![s].nrec = NAdd(@, n)]
  /\ op' = [name |-> "add_records", s |-> s]
  /\ UNCHANGED <<env, rnd, truth, used>>
\* read-only: query(key) = decoded value of the key's smallest counter
Query(s, k) ==
  /\ op' = [name |-> "query", s |-> s, k |-> k, out |-> EstV(s, k)]
  /\ UNCHANGED <<env, sk, rnd, truth, used>>
\* environment (test harness) moves the batch pointer, e.g. next to the end of the batch;
\* skipped positions count as consumed
SetPtr(s, p) ==
  /\ p \in rnd[s].ptr..B
  /\ rnd'  = [rnd EXCEPT ![s].ptr = p]
  /\ used' = [used EXCEPT ![s] = @ \cup {<<rnd[s].batch, i>> : i \in (rnd[s].ptr + 1)..p}]
  /\ op'   = [name |-> "set_ptr", s |-> s, p |-> p]
  /\ UNCHANGED <<env, sk, truth>>

\* a.merge(b): every cell is some counter admitted by LogMergeOK
Merge(s, t, newtbl) ==
  /\ \A r \in 1..env.D, c \in 1..env.W :
        LogMergeOK(Cfg, sk[s].tbl[r][c], sk[t].tbl[r][c], newtbl[r][c], MTol)
  /\ sk'    = [sk EXCEPT ![s] = [tbl |-> newtbl, nadd |-> NAdd(sk[s].nadd, sk[t].nadd),
                                 nrec |-> NAdd(sk[s].nrec, sk[t].nrec)]]
  /\ truth' = [truth EXCEPT ![s] = [k \in Keys |-> truth[s][k] + truth[t][k]]]
  /\ op'    = [name |-> "merge", s |-> s, t |-> t]
  /\ UNCHANGED <<env, rnd, used>>

\* t = load(save(s)): table and bookkeeping counters; the loaded sketch draws from its own
\* fresh random batch (content chosen by the environment)
SaveLoad(s, t, fresh) ==
  /\ sk'    = [sk EXCEPT ![t] = sk[s]]
  /\ rnd'   = [rnd EXCEPT ![t] = [ptr |-> 0, batch |-> 0, content |-> fresh]]
  /\ used'  = [used EXCEPT ![t] = {}]
  /\ truth' = [truth EXCEPT ![t] = truth[s]]
  /\ op'    = [name |-> "saveload", s |-> s, t |-> t]
  /\ UNCHANGED env

Tables == [1..env.D -> [1..env.W -> 0..Cfg.UMax]]
Next ==
  \/ \E s \in Slots, k \in Keys, v \in AddVals, f \in [1..B -> DrawVals] :
        v <= B /\ Add(s, k, v, SubSeq(rnd[s].content, rnd[s].ptr + 1, B) \o f, f)
  \/ \E s, t \in Slots, nt \in Tables : Merge(s, t, nt)
  \/ \E s, t \in Slots, f \in [1..B -> DrawVals] : s # t /\ SaveLoad(s, t, f)
Spec == Init /\ [][Next]_vars

-----------------------------------------------------------------------------
Min2(a, b) == IF a <= b THEN a ELSE b
(* C06: at least min(true count, NR + 1); exact in the reserved range when collision-free *)
LowerLog == \A s \in Slots, k \in Keys : MinC(s, k) >= Min2(truth[s][k], Cfg.NR + 1)
AloneIn(k, r) == \A j \in Keys : j # k => Col(j)[r] # Col(k)[r]
ReservedExact ==
  \A s \in Slots, k \in Keys :
    ((\E r \in 1..env.D : AloneIn(k, r)) /\ truth[s][k] <= Cfg.NR + 1) => MinC(s, k) = truth[s][k]
(* C06: draws are replenished, never recycled *)
Fresh == \A s \in Slots : rnd[s].ptr \in 0..B
FreshStep == op'.name = "add" => op'.fresh_positions
FreshProp == [][FreshStep]_vars
(* C05 (log part) *)
MinCP(s, k) == LogMin(sk'[s], Col(k), Cfg.UMax)
RowChanges(s, r) == Cardinality({c \in 1..env.W : sk'[s].tbl[r][c] # sk[s].tbl[r][c]})
AddEffectLog ==
  op'.name = "add" =>
    LET s == op'.s  k == op'.k  v == op'.v IN
      /\ MinCP(s, k) >= MinC(s, k) /\ MinCP(s, k) <= MinC(s, k) + v
      /\ Min2(MinC(s, k) + v, Cfg.UMax) <= Cfg.NR + 1 => MinCP(s, k) = MinC(s, k) + v
      /\ \A j \in Keys : /\ MinCP(s, j) >= MinC(s, j)
                         /\ MinCP(s, j) <= (IF MinC(s, j) >= MinCP(s, k) THEN MinC(s, j) ELSE MinCP(s, k))
      /\ \A r \in 1..env.D : RowChanges(s, r) <= 1
      /\ sk'[s].nadd = NAdd(sk[s].nadd, NOf(v))
      /\ \A t \in Slots : t # s => sk'[t] = sk[t]
AddEffectLogProp == [][AddEffectLog]_vars
(* C18 (log part): no add or merge lowers an estimate; the ceiling is absorbing *)
MonotoneLog ==
  \A s \in Slots : ~(op'.name = "saveload" /\ op'.t = s) =>
     \A k \in Keys : /\ MinCP(s, k) >= MinC(s, k)
                     /\ MinC(s, k) = Cfg.UMax => MinCP(s, k) = Cfg.UMax
MonotoneLogProp == [][MonotoneLog]_vars
(* C09 (log part): merged counter never below either input; merging an empty sketch is the
   identity; in the reserved range the merge is the exact sum *)
MergeEffectLog ==
  op'.name = "merge" =>
    LET s == op'.s  t == op'.t IN
      /\ \A r \in 1..env.D, c \in 1..env.W :
            LET a == sk[s].tbl[r][c]  b == sk[t].tbl[r][c]  m == sk'[s].tbl[r][c] IN
              /\ m >= a /\ m >= b
              /\ b = 0 => m = a
              /\ a = 0 => m = b
              /\ a + b <= Cfg.NR => m = a + b
      /\ \A u \in Slots : u # s => sk'[u] = sk[u]
MergeEffectLogProp == [][MergeEffectLog]_vars
=============================================================================
