SPECIFICATION TSpec
INVARIANT TraceOK
CHECK_DEADLOCK TRUE
