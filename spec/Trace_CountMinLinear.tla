------------------------ MODULE Trace_CountMinLinear ------------------------
(***************************************************************************)
(* Trace validation: every recorded execution of the real CountMinLinear   *)
(* must be a behaviour of CountMinLinear.tla.  The file named by the       *)
(* environment variable TRACE_FILE holds a JSON array of traces           *)
(*   [W, D, keys: [[b: bytes, cols]], events: [...]]                       *)
(* one event per public call with its arguments and the projected state of *)
(* EVERY slot after the call.  Each event is consumed by the design        *)
(* module's own action; the specification computes the successor state and *)
(* it must equal the recorded one.  All design invariants and action       *)
(* properties are evaluated on every step with the ghost truth.            *)
(* Numbers are DigNum digit sequences (arbitrary size: ghost truth doubles with every self-merge).  All traces of the file are        *)
(* checked in one run: one initial state per trace.                        *)
(***************************************************************************)
EXTENDS CountMinLinear, DigNum, Json, IOUtils
VARIABLES tid, l, ok
tvars == <<vars, tid, l, ok>>

Traces == JsonDeserialize(IOEnv.TRACE_FILE)
BigCap32 == <<1073741823, 3>>     \* 2^32 - 1 in base-2^30 digits
TSlots == 1..(CHOOSE m \in 1..64 : (\A i \in 1..Len(Traces) : Traces[i].NS <= m) /\ (m = 1 \/ \E i \in 1..Len(Traces) : Traces[i].NS = m))   \* as many slots as the largest trace of the batch uses

TraceEnv(t) ==
  [W |-> t.W, D |-> t.D,
   col |-> [k \in {t.keys[i].b : i \in 1..Len(t.keys)} |->
              (CHOOSE i \in 1..Len(t.keys) : t.keys[i].b = k) ]]
TraceEnvCols(t) ==
  LET e == TraceEnv(t) IN [e EXCEPT !.col = [k \in DOMAIN e.col |-> t.keys[e.col[k]].cols]]

TInit ==
  /\ tid \in 1..Len(Traces)
  /\ l = 1
  /\ ok = TRUE
  /\ env = TraceEnvCols(Traces[tid])
  /\ sk    = [s \in Slots |-> LinEmpty(env.W, env.D)]
  /\ truth = [s \in Slots |-> [k \in DOMAIN env.col |-> NZero]]
  /\ cut   = [s \in Slots |-> FALSE]
  /\ op    = [name |-> "init"]

Events == Traces[tid].events

Consume(e) ==
  \/ e.ev = "add"          /\ Add(e.s, e.k, e.v)
  \/ e.ev = "update_list"  /\ UpdateList(e.s, e.ks)
  \/ e.ev = "update_dict"  /\ UpdateDict(e.s, e.kvs)
  \/ e.ev = "add_ngram"    /\ AddNgram(e.s, e.key, e.n)
  \/ e.ev = "update_ngram" /\ UpdateNgram(e.s, e.keys, e.n)
  \/ e.ev = "merge"        /\ Merge(e.s, e.t)
  \/ e.ev = "saveload"     /\ SaveLoad(e.s, e.t)
  \/ e.ev = "add_records"  /\ AddRecords(e.s, e.n)
  \/ e.ev = "query"        /\ Query(e.s, e.k)

\* the recorded post-state (every slot) and, for queries, the recorded result
Matches(e) ==
  /\ "post" \in DOMAIN e => \A s \in 1..Len(e.post) : sk'[s] = e.post[s]   \* (parallel_add runs record only the final state)
  /\ "posts" \in DOMAIN e => \A i \in 1..Len(e.posts) : sk'[e.posts[i].s] = e.posts[i].st   \* (repository-test traces record the touched slots)
  /\ e.ev = "query" => op'.out = e.out

TStep ==
  /\ l <= Len(Events)
  /\ LET e == Events[l] IN
       /\ Consume(e)
       /\ ok' = Matches(e)
       /\ IF Matches(e) THEN TRUE ELSE PrintT(<<"MISMATCH", tid, l, ToJson([ev |-> e.ev, spec |-> sk', out |-> op'])>>)
  /\ l' = l + 1
  /\ tid' = tid

TDone == l > Len(Events) /\ UNCHANGED tvars

TNext == TStep \/ TDone
TSpec == TInit /\ [][TNext]_tvars

TraceOK == ok
\* the two quadratic invariants at every 64th step and at the end (traces of the repository's own
\* tests have tens of thousands of events over 25 keys)
Checkpoint == l % 64 = 1 \/ l > Len(Events)
UpperSparse == Checkpoint => Upper
UpperCellSparse == Checkpoint => UpperCell
MergeAlgebraSparse == Checkpoint => MergeAlgebra
LowerSparse == Checkpoint => Lower
ExactSparse == Checkpoint => Exact
NAddedSparse == Checkpoint => NAdded
CellsBelowCapSparse == Checkpoint => CellsBelowCap
=============================================================================
