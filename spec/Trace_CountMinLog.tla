------------------------- MODULE Trace_CountMinLog -------------------------
(***************************************************************************)
(* Trace validation of real CountMinLog8/CountMinLog16 objects.  Header:   *)
(* shape, key placement (probe observed), and the configuration: UMax, NR, *)
(* MaxCount, the decoded-value table Val (observed from the implementation *)
(* and cross-checked against the closed formula by the harness) and the    *)
(* increment probabilities P = base^-k (CPython floats), all as exact      *)
(* integers (DigNum, scaled by a power of two; tables are sparse).         *)
(* add events carry the uniform draws available to the call; the spec      *)
(* replays _log_counter on them, so every counter outcome, the number of   *)
(* draws consumed, the pointer movement and the refill are checked.        *)
(***************************************************************************)
EXTENDS CountMinLog, DigNum, Json, IOUtils
VARIABLES tid, l, ok
tvars == <<vars, tid, l, ok>>
Traces == JsonDeserialize(IOEnv.TRACE_FILE)
TSlots == 1..(CHOOSE m \in 1..64 : (\A i \in 1..Len(Traces) : Traces[i].NS <= m) /\ (m = 1 \/ \E i \in 1..Len(Traces) : Traces[i].NS = m))   \* as many slots as the largest trace of the batch uses
TB == Traces[1].B      \* the size of the implementation's random batch (2048 in the pinned tree), read from the objects
RelTol(x) == DigShift(x)          \* x / 2^30

PairsToFn(ps) == [c \in {ps[i][1] : i \in 1..Len(ps)} |-> ps[CHOOSE i \in 1..Len(ps) : ps[i][1] = c][2]]
TraceEnv(t) ==
  [W |-> t.W, D |-> t.D,
   col |-> [k \in {t.keys[i].b : i \in 1..Len(t.keys)} |->
              t.keys[CHOOSE i \in 1..Len(t.keys) : t.keys[i].b = k].cols],
   cfg |-> [UMax |-> t.UMax, NR |-> t.NR, MaxCount |-> t.MaxCount,
            Val |-> PairsToFn(t.Val), P |-> PairsToFn(t.P)]]

TInit ==
  /\ tid \in 1..Len(Traces) /\ l = 1 /\ ok = TRUE
  /\ env = TraceEnv(Traces[tid])
  /\ sk    = [s \in Slots |-> LogEmpty(env.W, env.D)]
  /\ rnd   = [s \in Slots |-> [ptr |-> 0, batch |-> 0, content |-> <<>>]]
  /\ truth = [s \in Slots |-> [k \in DOMAIN env.col |-> 0]]
  /\ used  = [s \in Slots |-> {}]
  /\ op    = [name |-> "init"]
Events == Traces[tid].events

Consume(e) ==
  \/ e.ev = "add"         /\ Add(e.s, e.k, e.v, e.draws, <<>>)
  \/ e.ev = "add_big"     /\ AddBig(e.s, e.k, e.v, e.vbig, e.draws, <<>>)
  \/ e.ev = "update_list"  /\ UpdateList(e.s, e.ks, e.draws, <<>>)
  \/ e.ev = "update_dict"  /\ UpdateDict(e.s, e.kvs, e.draws, <<>>)
  \/ e.ev = "add_ngram"    /\ AddNgram(e.s, e.key, e.n, e.draws, <<>>)
  \/ e.ev = "update_ngram" /\ UpdateNgram(e.s, e.keys, e.n, e.draws, <<>>)
  \/ e.ev = "merge"       /\ Merge(e.s, e.t, e.post[e.s].tbl)
  \/ e.ev = "saveload"    /\ SaveLoad(e.s, e.t, <<>>)
  \/ e.ev = "add_records" /\ AddRecords(e.s, e.n)
  \/ e.ev = "query"       /\ Query(e.s, e.k)
  \/ e.ev = "set_ptr"     /\ SetPtr(e.s, e.p)

Matches(e) ==
  /\ \A s \in 1..Len(e.post) : sk'[s] = e.post[s]
  /\ \A s \in 1..Len(e.ptrs) : rnd'[s].ptr = e.ptrs[s]          \* rand_ptr of every sketch
  /\ e.ev \in {"add", "add_big", "update_list", "update_dict", "add_ngram", "update_ngram"} =>
                     /\ op'.refill = e.refilled                  \* replenished exactly when exhausted
                     /\ e.refilled => e.fresh_ok                 \* with a fresh batch in [0,1)
                     /\ Len(e.draws) >= op'.draws
  /\ e.ev = "query" => op'.out = e.out
  \* sketches never share a batch of draws: the batches the slots started with, and the batch of every
  \* sketch created by load(), are new (flags computed by the recorder over all batches of the history)
  /\ Traces[tid].init_fresh
  /\ e.ev = "saveload" => e.fresh_ok

TStep ==
  /\ l <= Len(Events)
  /\ LET e == Events[l] IN
       /\ Consume(e)
       /\ ok' = Matches(e)
       /\ IF Matches(e) THEN TRUE ELSE PrintT(<<"MISMATCH", tid, l, ToJson([ev |-> e.ev, spec |-> sk',
                                   ptrs |-> [s \in Slots |-> rnd'[s].ptr], out |-> op'])>>)
  /\ l' = l + 1 /\ tid' = tid
TDone == l > Len(Events) /\ UNCHANGED tvars
TSpec == TInit /\ [][TStep \/ TDone]_tvars
TraceOK == ok
=============================================================================
