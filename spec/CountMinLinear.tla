--------------------------- MODULE CountMinLinear ---------------------------
(***************************************************************************)
(* State machine of a pool of CountMinLinear sketches (slots) of one       *)
(* shape, with ghost ground truth.  One action per public entry point.     *)
(*                                                                         *)
(* env   : [W, D, col], col[k] = the columns key k owns (one per row).     *)
(*         Chosen in Init and never changed: hashing is abstracted by an   *)
(*         arbitrary placement (exhaustive runs enumerate placements;      *)
(*         trace runs bind it to the placement observed on probe sketches).*)
(* sk    : slot -> sketch value (CMLin)                                    *)
(* truth : slot -> key -> total multiplicity added over all merged streams *)
(* cut   : slot -> some add was cut short by the ceiling (then n_added may *)
(*         lag behind the total multiplicity)                              *)
(* op    : last action with arguments and result (history variable; hidden *)
(*         by VIEW in exhaustive runs, exported for replay)                *)
(***************************************************************************)
EXTENDS CMLin, SequencesExt, TLC
CONSTANTS Slots,        \* set of slot ids
          EnvChoices,   \* set of admissible env values (Init picks one)
          AddVals,      \* multiplicities offered to add()
          Lists,        \* key lists offered to update(list)
          Dicts,        \* sequences of <<key, value>> offered to update(dict)
          NgramArgs,    \* <<key, n>> pairs offered to add_ngram
          RecVals       \* values the parallel worker adds to n_records
VARIABLES env, sk, truth, cut, op
vars == <<env, sk, truth, cut, op>>
view == <<env, sk, truth, cut>>

Keys    == DOMAIN env.col
KeySeq  == SetToSeq(Keys)
Col(k)  == env.col[k]
Est(s, k) == LinEst(sk[s], Col(k))
TruthSum(s) == NSumSeq([i \in 1..Len(KeySeq) |-> truth[s][KeySeq[i]]])

Init ==
  /\ env \in EnvChoices
  /\ sk    = [s \in Slots |-> LinEmpty(env.W, env.D)]
  /\ truth = [s \in Slots |-> [k \in DOMAIN env.col |-> NZero]]
  /\ cut   = [s \in Slots |-> FALSE]
  /\ op    = [name |-> "init"]

\* ghost bookkeeping shared by every adding action: kvs is the sequence of
\* <<key, value>> pairs the call adds, in order
RECURSIVE TruthAll(_, _)
TruthAll(tr, kvs) ==
  IF kvs = <<>> THEN tr
  ELSE TruthAll([tr EXCEPT ![Head(kvs)[1]] = NAdd(@, Head(kvs)[2])], Tail(kvs))
ValSum(kvs) == NSumSeq([i \in 1..Len(kvs) |-> kvs[i][2]])

\* (the successor is computed once: post is an operator argument, which TLC caches inside an action,
\* and the sequences are forced -- a lazily built sequence is rebuilt by every Head/Tail)
AddManyTo(s, kvs, o, post) ==
      /\ sk'    = [sk EXCEPT ![s] = post]
      /\ truth' = [truth EXCEPT ![s] = TruthAll(@, kvs)]
      /\ cut'   = [cut EXCEPT ![s] = @ \/ post.nadd # NAdd(sk[s].nadd, ValSum(kvs))]
      /\ op'    = o
      /\ UNCHANGED env
AddMany(s, kvs0, o) ==
  LET kvs == TLCEval(kvs0)
  IN  AddManyTo(s, kvs, o, TLCEval(LinAddAll(sk[s], TLCEval([i \in 1..Len(kvs) |-> <<Col(kvs[i][1]), kvs[i][2]>>]))))

Add(s, k, v)      == AddMany(s, <<<<k, v>>>>, [name |-> "add", s |-> s, k |-> k, v |-> v])
UpdateList(s, ks) == AddMany(s, [i \in 1..Len(ks) |-> <<ks[i], NOf(1)>>],
                             [name |-> "update_list", s |-> s, ks |-> ks])
UpdateDict(s, kvs) == AddMany(s, kvs, [name |-> "update_dict", s |-> s, kvs |-> kvs])
AddNgram(s, key, n) ==
  LET w == Windows(key, n)
  IN  AddMany(s, [i \in 1..Len(w) |-> <<w[i], NOf(1)>>],
              [name |-> "add_ngram", s |-> s, key |-> key, n |-> n])
UpdateNgram(s, keys, n) ==
  LET w == FlattenSeq([i \in 1..Len(keys) |-> Windows(keys[i], n)])
  IN  AddMany(s, [i \in 1..Len(w) |-> <<w[i], NOf(1)>>],
              [name |-> "update_ngram", s |-> s, keys |-> keys, n |-> n])

\* a.merge(b): b may be a itself
Merge(s, t) ==
  /\ sk'    = [sk EXCEPT ![s] = LinMerge(sk[s], sk[t])]
  /\ truth' = [truth EXCEPT ![s] = [k \in Keys |-> NAdd(truth[s][k], truth[t][k])]]
  /\ cut'   = [cut EXCEPT ![s] = cut[s] \/ cut[t]]
  /\ op'    = [name |-> "merge", s |-> s, t |-> t]
  /\ UNCHANGED env

\* t = load(save(s)): every persistent field is reproduced
SaveLoad(s, t) ==
  /\ sk'    = [sk EXCEPT ![t] = sk[s]]
  /\ truth' = [truth EXCEPT ![t] = truth[s]]
  /\ cut'   = [cut EXCEPT ![t] = cut[s]]
  /\ op'    = [name |-> "saveload", s |-> s, t |-> t]
  /\ UNCHANGED env

\* what helpers._worker does on the poison pill: n_added_records[1] += n
AddRecords(s, n) ==
  /\ sk' = [sk EXCEPT ![s].nrec = NAdd(@, n)]
  /\ op' = [name |-> "add_records", s |-> s, n |-> n]
  /\ UNCHANGED <<env, truth, cut>>

\* read-only observers (query / __getitem__ / n_added / n_records)
Query(s, k) ==
  /\ op' = [name |-> "query", s |-> s, k |-> k, out |-> Est(s, k)]
  /\ UNCHANGED <<env, sk, truth, cut>>

Next ==
  \/ \E s \in Slots, k \in Keys, v \in AddVals : Add(s, k, v)
  \/ \E s \in Slots, ks \in Lists : UpdateList(s, ks)
  \/ \E s \in Slots, kvs \in Dicts : UpdateDict(s, kvs)
  \/ \E s \in Slots, a \in NgramArgs : AddNgram(s, a[1], a[2])
  \/ \E s, t \in Slots : Merge(s, t)
  \/ \E s, t \in Slots : s # t /\ SaveLoad(s, t)
  \/ \E s \in Slots, n \in RecVals : AddRecords(s, n)
  \/ \E s \in Slots, k \in Keys : Query(s, k)

Spec == Init /\ [][Next]_vars

-----------------------------------------------------------------------------
(* C01: true <= estimate <= collision bound, on every history *)
TrueCapped(s, k) == NMin(truth[s][k], NCap)
Lower == \A s \in Slots, k \in Keys : NLeq(TrueCapped(s, k), Est(s, k))

\* total truth of the keys that own cell (r, c)
CellLoad(s, r, c) ==
  NSumSeq([i \in 1..Len(KeySeq) |->
             IF Col(KeySeq[i])[r] = c THEN truth[s][KeySeq[i]] ELSE NZero])
UpperCell == \A s \in Slots, r \in 1..env.D, c \in 1..env.W :
               NLeq(sk[s].tbl[r][c], NMin(NCap, CellLoad(s, r, c)))
Upper == \A s \in Slots, k \in Keys, r \in 1..env.D :
           NLeq(Est(s, k), NMin(NCap, CellLoad(s, r, Col(k)[r])))
\* hence: collision-free in some row => exact
AloneIn(k, r) == \A j \in Keys : j # k => Col(j)[r] # Col(k)[r]
Exact == \A s \in Slots, k \in Keys :
           (\E r \in 1..env.D : AloneIn(k, r)) => Est(s, k) = TrueCapped(s, k)
NAdded == \A s \in Slots :
            /\ NLeq(sk[s].nadd, TruthSum(s))
            /\ ~cut[s] => sk[s].nadd = TruthSum(s)

-----------------------------------------------------------------------------
(* C05 (linear part): effect of one add *)
RowChanges(s, r) == Cardinality({c \in 1..env.W : sk'[s].tbl[r][c] # sk[s].tbl[r][c]})
EstP(s, k) == LinEst(sk'[s], Col(k))
AddEffect ==
  op'.name = "add" =>
    LET s == op'.s  k == op'.k  v == NMin(op'.v, NCap) IN
      /\ EstP(s, k) = NSatAdd(Est(s, k), v, NCap)
      /\ \A j \in Keys : /\ NLeq(Est(s, j), EstP(s, j))
                         /\ NLeq(EstP(s, j), NMax(Est(s, j), EstP(s, k)))
      /\ \A r \in 1..env.D : RowChanges(s, r) <= 1
      /\ (op'.v = v /\ NLeq(v, NSub(NCap, Est(s, k))))
            => sk'[s].nadd = NAdd(sk[s].nadd, op'.v)
      /\ \A t \in Slots : t # s => sk'[t] = sk[t]
AddEffectProp == [][AddEffect]_vars

(* C18 (linear part): nothing but a load into the slot ever lowers an estimate;
   a saturated estimate stays saturated *)
Monotone ==
  \A s \in Slots : ~(op'.name = "saveload" /\ op'.t = s) =>
     \A k \in Keys : /\ NLeq(Est(s, k), EstP(s, k))
                     /\ Est(s, k) = NCap => EstP(s, k) = NCap
MonotoneProp == [][Monotone]_vars
CellsBelowCap == \A s \in Slots, r \in 1..env.D, c \in 1..env.W : NLeq(sk[s].tbl[r][c], NCap)

(* C09 (linear part): algebra of merge on every reachable pair *)
MergeAlgebra ==
  \A s, t \in Slots :
    LET m == LinMerge(sk[s], sk[t]) IN
      /\ m = LinMerge(sk[t], sk[s])                                      \* commutative
      /\ LinMerge(sk[s], LinEmpty(env.W, env.D)) = sk[s]                 \* empty is neutral
      /\ \A r \in 1..env.D, c \in 1..env.W :
            /\ NLeq(sk[s].tbl[r][c], m.tbl[r][c])
            /\ NLeq(sk[t].tbl[r][c], m.tbl[r][c])
      /\ \A k \in Keys :
            NLeq(NSatAdd(Est(s, k), Est(t, k), NCap), LinEst(m, Col(k)))
MergeEffect ==
  op'.name = "merge" =>
    LET s == op'.s  t == op'.t IN
      /\ \A r \in 1..env.D, c \in 1..env.W :
            sk'[s].tbl[r][c] = NSatAdd(sk[s].tbl[r][c], sk[t].tbl[r][c], NCap)
      /\ sk'[s].nadd = NAdd(sk[s].nadd, sk[t].nadd)
      /\ sk'[s].nrec = NAdd(sk[s].nrec, sk[t].nrec)
      /\ \A u \in Slots : u # s => sk'[u] = sk[u]
MergeEffectProp == [][MergeEffect]_vars

(* C12 (linear part): batch entry points are loops of single adds; value v is
   v unit adds.  Checked as a state-function identity on every reachable sketch. *)
RECURSIVE UnitAdds(_, _, _)
UnitAdds(skv, cols, n) == IF n = 0 THEN skv ELSE UnitAdds(LinAdd(skv, cols, NOf(1)), cols, n - 1)
ValueIsUnitAdds ==
  \A s \in Slots, k \in Keys, n \in 0..4 : LinAdd(sk[s], Col(k), NOf(n)) = UnitAdds(sk[s], Col(k), n)
\* update(list) = add per element, update(dict) = add(key, value) per item, in order
BatchIsLoop ==
  \A s \in Slots, j, k \in Keys :
     /\ LinAddAll(sk[s], << <<Col(j), NOf(1)>>, <<Col(k), NOf(1)>> >>) = LinAdd(LinAdd(sk[s], Col(j), NOf(1)), Col(k), NOf(1))
     /\ LinAddAll(sk[s], << <<Col(j), NOf(2)>>, <<Col(k), NOf(1)>> >>) = LinAdd(LinAdd(sk[s], Col(j), NOf(2)), Col(k), NOf(1))
=============================================================================
