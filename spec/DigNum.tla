------------------------------ MODULE DigNum ------------------------------
(***************************************************************************)
(* Num realised by arbitrary-size naturals: little-endian digit sequences  *)
(* in base 2^30, normalised (no most-significant zero digit; 0 = <<>>).    *)
(* Used where exact float64 quantities enter a trace: every float64 is a   *)
(* dyadic rational, so a table of floats scaled by one power of two is a   *)
(* table of (large) integers; the Python side does the scaling exactly and *)
(* refuses (exit 2) anything that would need rounding.                     *)
(***************************************************************************)
EXTENDS Naturals, Sequences
DB == 1073741824
Dig(a, i) == IF i <= Len(a) THEN a[i] ELSE 0
DNorm(a) ==
  LET n == IF \E i \in 1..Len(a) : a[i] # 0
           THEN CHOOSE i \in 1..Len(a) : a[i] # 0 /\ \A j \in (i + 1)..Len(a) : a[j] = 0
           ELSE 0
  IN  SubSeq(a, 1, n)
DigAdd(a, b) ==
  LET n == (IF Len(a) >= Len(b) THEN Len(a) ELSE Len(b)) + 1
      c[i \in 0..n] == IF i = 0 THEN 0 ELSE (Dig(a, i) + Dig(b, i) + c[i - 1]) \div DB
  IN  DNorm([i \in 1..n |-> (Dig(a, i) + Dig(b, i) + c[i - 1]) % DB])
DigSub(a, b) ==      \* a >= b
  LET n == Len(a)
      br[i \in 0..n] == IF i = 0 THEN 0 ELSE IF Dig(a, i) - Dig(b, i) - br[i - 1] < 0 THEN 1 ELSE 0
  IN  DNorm([i \in 1..n |-> ((Dig(a, i) + DB) - Dig(b, i) - br[i - 1]) % DB])
DigLt(a, b) ==
  \/ Len(a) < Len(b)
  \/ /\ Len(a) = Len(b)
     /\ \E i \in 1..Len(a) : /\ a[i] < b[i]
                             /\ \A j \in (i + 1)..Len(a) : a[j] = b[j]
DigOf(n) == IF n = 0 THEN <<>> ELSE IF n < DB THEN <<n>> ELSE <<n % DB, n \div DB>>
\* floor(a / 2^30): drop the least significant digit
DigShift(a) == IF a = <<>> THEN <<>> ELSE Tail(a)
=============================================================================
