---------------------------- MODULE HeavyHitters ----------------------------
(***************************************************************************)
(* State machine of a pool of HeavyHitters sketches of one shape with the  *)
(* candidate-set cache and ghost ground truth per key identity.            *)
(* env   : [W, D, L, col]  col[id] = columns of identity id (a byte string *)
(*         of at most L bytes), chosen in Init, never changed.             *)
(* sk    : slot -> HHKernel sketch                                         *)
(* cache : slot -> [cand, naddSort, thrSort]  (candidate_set, n_added_sort,*)
(*         threshold_sort)                                                 *)
(* truth : slot -> identity -> total multiplicity added (all merged        *)
(*         streams);  sat : slot -> some count/add reached the ceiling     *)
(***************************************************************************)
EXTENDS HHKernel, SequencesExt, TLC
CONSTANTS Slots, EnvChoices, AddKeys, AddVals, Lists, Dicts, NgramArgs, RecVals,
          QueryKs, QueryThrs, PhiNum, PhiDen
VARIABLES env, sk, cache, truth, sat, op
vars == <<env, sk, cache, truth, sat, op>>
view == <<env, sk, cache, truth, sat>>

Ids     == DOMAIN env.col
IdSeq   == SetToSeq(Ids)
L       == env.L
Col(k)  == env.col[Trunc(k, L)]
Get(s, id) == HHGet(sk[s], L, id, env.col[id])
TruthSum(s) == NSumSeq([i \in 1..Len(IdSeq) |-> truth[s][IdSeq[i]]])
NoCache == [cand |-> <<>>, naddSort |-> NZero, thrSort |-> NZero]
Fresh(s, thr) == HHCandidates(sk[s], L, thr, LAMBDA key : env.col[key])

Init ==
  /\ env \in EnvChoices
  /\ sk    = [s \in Slots |-> HHEmpty(env.W, env.D, env.L)]
  /\ cache = [s \in Slots |-> NoCache]
  /\ truth = [s \in Slots |-> [k \in DOMAIN env.col |-> NZero]]
  /\ sat   = [s \in Slots |-> FALSE]
  /\ op    = [name |-> "init"]

RECURSIVE TruthAll(_, _)
TruthAll(tr, kvs) ==
  IF kvs = <<>> THEN tr
  ELSE TruthAll([tr EXCEPT ![Trunc(Head(kvs)[1], L)] = NAdd(@, Head(kvs)[2])], Tail(kvs))
AnyCellAtCap(skv) == \E r \in DOMAIN skv.cells : \E c \in DOMAIN skv.cells[r] : skv.cells[r][c].cnt = NCap

AddMany(s, kvs, o) ==
  LET kcvs == [i \in 1..Len(kvs) |-> <<kvs[i][1], Col(kvs[i][1]), kvs[i][2]>>]
      post == HHAddAll(sk[s], L, kcvs)
  IN  /\ sk'    = [sk EXCEPT ![s] = post]
      /\ truth' = [truth EXCEPT ![s] = TruthAll(@, kvs)]
      \* the ceiling may be touched in the middle of a batch
      /\ sat'   = [sat EXCEPT ![s] = @ \/ \E i \in 1..Len(kvs) :
                                             \/ NLt(NCap, kvs[i][2])
                                             \/ AnyCellAtCap(HHAddAll(sk[s], L, SubSeq(kcvs, 1, i)))]
      /\ op'    = o
      /\ UNCHANGED <<env, cache>>

Add(s, k, v)       == AddMany(s, <<<<k, v>>>>, [name |-> "add", s |-> s, k |-> k, v |-> v])
UpdateList(s, ks)  == AddMany(s, [i \in 1..Len(ks) |-> <<ks[i], NOf(1)>>],
                              [name |-> "update_list", s |-> s, ks |-> ks])
UpdateDict(s, kvs) == AddMany(s, kvs, [name |-> "update_dict", s |-> s, kvs |-> kvs])
AddNgram(s, key, n) ==
  LET w == Windows(key, n)
  IN  AddMany(s, [i \in 1..Len(w) |-> <<w[i], NOf(1)>>],
              [name |-> "add_ngram", s |-> s, key |-> key, n |-> n])
UpdateNgram(s, keys, n) ==
  LET w == FlattenSeq([i \in 1..Len(keys) |-> Windows(keys[i], n)])
  IN  AddMany(s, [i \in 1..Len(w) |-> <<w[i], NOf(1)>>],
              [name |-> "update_ngram", s |-> s, keys |-> keys, n |-> n])

Merge(s, t) ==
  LET post == HHMerge(sk[s], sk[t]) IN
  /\ sk'    = [sk EXCEPT ![s] = post]
  /\ truth' = [truth EXCEPT ![s] = [k \in Ids |-> NAdd(truth[s][k], truth[t][k])]]
  /\ sat'   = [sat EXCEPT ![s] = sat[s] \/ sat[t] \/ AnyCellAtCap(post)]
  /\ op'    = [name |-> "merge", s |-> s, t |-> t]
  /\ UNCHANGED <<env, cache>>

\* default threshold floor(phi * n_added()); thrDefault is supplied by the environment
\* (exhaustive runs: phi = PhiNum/PhiDen exactly; traces: the float product, logged)
DefaultThr(s) == NOf((sk[s].nadd * PhiNum) \div PhiDen)

\* t = load(save(s)): persistent state copied, candidate set rebuilt with the default threshold
SaveLoad(s, t, thrDefault) ==
  /\ sk'    = [sk EXCEPT ![t] = sk[s]]
  /\ cache' = [cache EXCEPT ![t] = [cand |-> HHCandidates(sk[s], L, thrDefault, LAMBDA key : env.col[key]),
                                    naddSort |-> sk[s].nadd, thrSort |-> thrDefault]]
  /\ truth' = [truth EXCEPT ![t] = truth[s]]
  /\ sat'   = [sat EXCEPT ![t] = sat[s]]
  /\ op'    = [name |-> "saveload", s |-> s, t |-> t]
  /\ UNCHANGED env

AddRecords(s, n) ==
  /\ sk' = [sk EXCEPT ![s].nrec = NAdd(@, n)]
  /\ op' = [name |-> "add_records", s |-> s, n |-> n]
  /\ UNCHANGED <<env, cache, truth, sat>>

\* query(k, threshold): thr is the effective threshold (explicit or default);
\* the candidate set is regenerated iff data was added or the threshold changed
QueryTop(s, kk, thr) ==
  LET stale == NLt(cache[s].naddSort, sk[s].nadd) \/ cache[s].thrSort # thr
      c2 == IF stale THEN [cand |-> Fresh(s, thr), naddSort |-> sk[s].nadd, thrSort |-> thr]
                     ELSE cache[s]
  IN  /\ cache' = [cache EXCEPT ![s] = c2]
      /\ op' = [name |-> "query", s |-> s, kk |-> kk, thr |-> thr, rebuilt |-> stale,
                out |-> TopK(c2.cand, kk), full |-> TopK(c2.cand, 0)]
      /\ UNCHANGED <<env, sk, truth, sat>>

\* generate_candidate_set(threshold) called directly: the cache is rebuilt unconditionally
Generate(s, thr) ==
  /\ cache' = [cache EXCEPT ![s] = [cand |-> Fresh(s, thr), naddSort |-> sk[s].nadd, thrSort |-> thr]]
  /\ op' = [name |-> "generate", s |-> s, thr |-> thr]
  /\ UNCHANGED <<env, sk, truth, sat>>

\* hh[key], Len(key) <= L
GetItem(s, id) ==
  /\ op' = [name |-> "getitem", s |-> s, k |-> id, out |-> Get(s, id)]
  /\ UNCHANGED <<env, sk, cache, truth, sat>>

Next ==
  \/ \E s \in Slots, k \in AddKeys, v \in AddVals : Add(s, k, v)
  \/ \E s \in Slots, ks \in Lists : UpdateList(s, ks)
  \/ \E s \in Slots, kvs \in Dicts : UpdateDict(s, kvs)
  \/ \E s \in Slots, a \in NgramArgs : AddNgram(s, a[1], a[2])
  \/ \E s, t \in Slots : Merge(s, t)
  \/ \E s, t \in Slots : s # t /\ SaveLoad(s, t, DefaultThr(s))
  \/ \E s \in Slots, n \in RecVals : AddRecords(s, n)
  \/ \E s \in Slots, kk \in QueryKs, thr \in QueryThrs :
        QueryTop(s, kk, IF thr = -1 THEN DefaultThr(s) ELSE NOf(thr))
  \/ \E s \in Slots, id \in Ids : GetItem(s, id)
  \/ \E s \in Slots, thr \in QueryThrs : QueryKs # {} /\ Generate(s, IF thr = -1 THEN DefaultThr(s) ELSE NOf(thr))

Spec == Init /\ [][Next]_vars

-----------------------------------------------------------------------------
(* C03: never over-count, never report a key that was not added *)
NoOverCell == \A s \in Slots, r \in 1..env.D, c \in 1..env.W :
                LET cell == sk[s].cells[r][c] IN
                  cell.cnt # NZero => /\ CellKey(cell) \in Ids
                                      /\ NLeq(cell.cnt, truth[s][CellKey(cell)])
NoOver  == \A s \in Slots, id \in Ids : NLeq(Get(s, id), truth[s][id])
Reported(s) == Fresh(s, NZero)          \* the unbounded answer with threshold 0
NoGhost == \A s \in Slots :
             LET rep == Reported(s) IN
               \A i \in 1..Len(rep) : /\ rep[i][1] \in Ids
                                      /\ NLt(NZero, truth[s][rep[i][1]])
                                      /\ NLeq(rep[i][2], truth[s][rep[i][1]])

(* C04: a key that dominates one of its cells is reported (absent saturation) *)
CellLoad(s, r, c) ==
  NSumSeq([i \in 1..Len(IdSeq) |-> IF env.col[IdSeq[i]][r] = c THEN truth[s][IdSeq[i]] ELSE NZero])
Twice(x) == NAdd(x, x)
Dominant ==
  \A s \in Slots : ~sat[s] =>
    \A id \in Ids, r \in 1..env.D :
      LET wr == CellLoad(s, r, env.col[id][r])
          f2 == Twice(truth[s][id])
      IN  NLt(wr, f2) =>
            /\ NLeq(NSub(f2, wr), Get(s, id))
            /\ \E i \in 1..Len(Fresh(s, NSub(f2, wr))) : Fresh(s, NSub(f2, wr))[i][1] = id
MajorityFirst ==
  \A s \in Slots : ~sat[s] =>
    \A id \in Ids :
      LET n == TruthSum(s)  f2 == Twice(truth[s][id]) IN
        NLt(n, f2) =>
          LET top == TopK(Fresh(s, NOf(1)), 1) IN
            /\ Len(top) = 1 /\ top[1][1] = id /\ NLeq(NSub(f2, n), top[1][2])
NAddedHH == \A s \in Slots : ~sat[s] => sk[s].nadd = TruthSum(s)

(* C13: the answer of query() is the exact fresh top-k *)
CacheCoherent ==      \* whenever the cache would be used it equals a fresh recomputation
  \A s \in Slots : ~NLt(cache[s].naddSort, sk[s].nadd) =>
                      cache[s].cand = Fresh(s, cache[s].thrSort)
QueryAnswer ==
  op'.name = "query" =>
    LET s == op'.s  out == op'.out  full == TopK(Fresh(s, op'.thr), 0) IN
      /\ (op'.kk # 0 => Len(out) <= op'.kk)
      /\ \A i \in 1..Len(out) :
            /\ out[i][2] = Get(s, out[i][1])           \* each count is hh[key]
            /\ NLeq(op'.thr, out[i][2])                \* and reaches the threshold
            /\ i > 1 => NLeq(out[i][2], out[i - 1][2]) \* non-increasing
            /\ \A j \in 1..Len(out) : j # i => out[j][1] # out[i][1]
      /\ out = SubSeq(full, 1, Len(out))               \* the first k of the unbounded answer
      /\ (op'.kk = 0 \/ op'.kk >= Len(full)) => out = full
      /\ \A id \in Ids :                               \* every added key that qualifies appears
            (NLt(NZero, truth[s][id]) /\ NLeq(NMax(op'.thr, NOf(1)), Get(s, id)))
               => \E i \in 1..Len(full) : full[i][1] = id
QueryAnswerProp == [][QueryAnswer]_vars

(* C18 (heavy-hitter part): a count that fills its cells alone only grows; the ceiling holds *)
AloneEverywhere(id) == \A j \in Ids : j # id => \A r \in 1..env.D : env.col[j][r] # env.col[id][r]
MonotoneAlone ==
  \A s \in Slots : (op'.name \in {"add", "update_list", "update_dict", "add_ngram", "update_ngram", "merge"}
                     /\ op'.s = s) =>
     \A id \in Ids : AloneEverywhere(id) =>
        /\ NLeq(Get(s, id), HHGet(sk'[s], L, id, env.col[id]))
        /\ Get(s, id) = NCap => HHGet(sk'[s], L, id, env.col[id]) = NCap
MonotoneAloneProp == [][MonotoneAlone]_vars
(* C12 (heavy-hitter part): add(key, v) equals v single adds (no count at the ceiling) *)
RECURSIVE HHUnitAdds(_, _, _, _)
HHUnitAdds(skv, k, cols, n) == IF n = 0 THEN skv ELSE HHUnitAdds(HHAdd(skv, L, k, cols, NOf(1)), k, cols, n - 1)
ValueIsUnitAddsHH ==
  \A s \in Slots : ~sat[s] =>
    \A id \in Ids, n \in 0..3 :
       LET a == HHAdd(sk[s], L, id, env.col[id], NOf(n)) IN
         ~AnyCellAtCap(a) => a = HHUnitAdds(sk[s], id, env.col[id], n)
CountsBelowCap == \A s \in Slots, r \in 1..env.D, c \in 1..env.W : NLeq(sk[s].cells[r][c].cnt, NCap)
=============================================================================
