------------------------------ MODULE HLLQuery ------------------------------
(***************************************************************************)
(* HyperLogLog.query() as the documented HyperLogLog++ estimator (C17).    *)
(* The decision structure is stated here; the real-valued ingredients of   *)
(* an evaluation (linear counting value m*ln(m/V), raw estimate            *)
(* alpha*m^2/sum 2^-r, interpolated bias) are computed by the harness in   *)
(* exact/independent arithmetic (fractions, math.log) and enter as exact   *)
(* integers scaled by one power of two (DigNum).  TLC decides the regime,  *)
(* locates the interpolation segment in the shipped tables, and compares   *)
(* the recorded answer.                                                    *)
(***************************************************************************)
EXTENDS DigNum, Json, IOUtils, TLC
Le(a, b) == ~DigLt(b, a)
\* the four regimes
Regime(e) ==
  IF e.nzero > 0
  THEN IF Le(e.lc, e.thr) THEN "LC" ELSE "BiasZero"           \* linear counting unless above the threshold
  ELSE IF Le(e.raw, e.fivem) THEN "BiasNoZero" ELSE "Raw"      \* bias correction up to 5m
\* raw - bias with a signed bias
Corrected(e) == IF e.bias_neg THEN DigAdd(e.raw, e.bias) ELSE DigSub(e.raw, e.bias)
Estimate(e) ==
  CASE Regime(e) = "LC" -> e.lc
    [] Regime(e) \in {"BiasZero", "BiasNoZero"} -> Corrected(e)
    [] Regime(e) = "Raw" -> e.raw
\* |a - b| <= b * 2^-30 + slack
Close(a, b, slack) == /\ Le(a, DigAdd(b, DigAdd(DigShift(b), slack)))
                      /\ Le(b, DigAdd(a, DigAdd(DigShift(b), slack)))
\* the bias the harness interpolated lies on the segment of the shipped tables that brackets raw
\* (tables: sequences of [neg, mag] for bias and magnitudes for raw, per precision)
SegmentOK(e, T) ==
  LET rw == T.raw  bs == T.bias  n == Len(rw)
      lo == IF DigLt(e.raw, rw[1]) THEN 1
            ELSE IF Le(rw[n], e.raw) THEN n
            ELSE CHOOSE i \in 1..(n - 1) : Le(rw[i], e.raw) /\ DigLt(e.raw, rw[i + 1])
      hi == IF lo = n \/ DigLt(e.raw, rw[1]) THEN lo ELSE lo + 1
      \* signed comparison helpers on [neg, mag]
      SLe(x, y) == IF x.neg /\ ~y.neg THEN TRUE
                   ELSE IF ~x.neg /\ y.neg THEN x.mag = <<>> /\ y.mag = <<>>
                   ELSE IF x.neg THEN Le(y.mag, x.mag) ELSE Le(x.mag, y.mag)
      b  == [neg |-> e.bias_neg, mag |-> e.bias]
      slackv == [neg |-> FALSE, mag |-> e.slack]
      mn == IF SLe(bs[lo], bs[hi]) THEN bs[lo] ELSE bs[hi]
      mx == IF SLe(bs[lo], bs[hi]) THEN bs[hi] ELSE bs[lo]
      \* b >= mn - slack and b <= mx + slack, written without signed subtraction
      Plus(x, s) == IF x.neg THEN (IF Le(x.mag, s) THEN [neg |-> FALSE, mag |-> DigSub(s, x.mag)]
                                   ELSE [neg |-> TRUE, mag |-> DigSub(x.mag, s)])
                    ELSE [neg |-> FALSE, mag |-> DigAdd(x.mag, s)]
  IN  SLe(mn, Plus(b, e.slack)) /\ SLe(b, Plus(mx, e.slack))

Data == JsonDeserialize(IOEnv.TRACE_FILE)
\* shipped tables: strictly increasing raw estimates that begin where the thresholds end
TablesOK(T) ==
  /\ \A i \in 1..(Len(T.raw) - 1) : DigLt(T.raw[i], T.raw[i + 1])
  /\ ~T.bias[1].neg /\ Close(DigSub(T.raw[1], T.bias[1].mag), T.thr, <<>>)

EventOK(e) ==
  /\ e.regime = Regime(e)                  \* the harness built this array for that cell
  /\ Regime(e) \in {"BiasZero", "BiasNoZero"} => SegmentOK(e, Data.tables[e.p - 6])
  /\ IF e.empty THEN e.out = <<>>          \* exactly 0.0 for the empty sketch
     ELSE Close(e.out, Estimate(e), e.slack)

VARIABLES l, ok
Init == l = 0 /\ ok = TRUE
Next ==
  \/ /\ l = 0 /\ l' = 1
     /\ ok' = \A i \in 1..Len(Data.tables) : TablesOK(Data.tables[i])
  \/ /\ l >= 1 /\ l <= Len(Data.events)
     /\ LET hi  == IF l + 15 <= Len(Data.events) THEN l + 15 ELSE Len(Data.events)
            bad == {i \in l..hi : ~EventOK(Data.events[i])}
        IN  /\ ok' = (bad = {})
            /\ IF bad = {} THEN TRUE ELSE PrintT(<<"MISMATCH", 1, l, ToJson([bad |-> Data.events[CHOOSE i \in bad : TRUE].id,
                                                   regime |-> Regime(Data.events[CHOOSE i \in bad : TRUE])])>>)
            /\ l' = hi + 1
Done == l > Len(Data.events) /\ UNCHANGED <<l, ok>>
Spec == Init /\ [][Next \/ Done]_<<l, ok>>
TraceOK == ok
=============================================================================
