SPECIFICATION Spec
CONSTANTS
  UMax = 5
  NR = 2
  NMax = 7
INVARIANT TotalMass
INVARIANT Unbiased
INVARIANT StepLaw
INVARIANT ExactBelow
CHECK_DEADLOCK FALSE
