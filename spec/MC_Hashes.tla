------------------------------ MODULE MC_Hashes ------------------------------
(***************************************************************************)
(* Constant-level facts about Hashes.tla, evaluated by TLC inside a        *)
(* next-state action (TLC caches operator arguments only there; in ASSUME, *)
(* Init and invariants every reference re-evaluates its argument).         *)
(*   step 1: Nlz64 (the branch structure of _n_leading_zeros64) equals its *)
(*           definition on every bit length 0..64 x three fill patterns    *)
(*   step 2..4: SMHasher verification values of the three hash functions   *)
(***************************************************************************)
EXTENDS Hashes
Pat(len, fill) ==
  [i \in 1..8 |->
     LET lo == 8 * (i - 1) IN
     IF len <= lo THEN 0
     ELSE LET top  == IF len - lo >= 8 THEN 8 ELSE len - lo
              lead == IF len - lo <= 8 THEN Pow2(top - 1) ELSE 0
              body == CASE fill = 0 -> 0
                        [] fill = 1 -> (Pow2(top) - 1)
                        [] OTHER    -> (85 % Pow2(top))
          IN  (body | lead) % 256]
NlzAll(u) == \A len \in 0..64, fill \in 0..2 :
            /\ BitLen(Pat(len, fill)) = len
            /\ Nlz64(Pat(len, fill)) = 64 - len
VARIABLES step, good
Init == step = 0 /\ good = TRUE
Next ==
  /\ step < 4
  /\ step' = step + 1
  /\ good' = CASE step = 0 -> NlzAll(0)
               [] step = 1 -> VerifyFast64(0)
               [] step = 2 -> VerifyFast32(0)
               [] step = 3 -> VerifyMurmur(0)
Anchored == good
=============================================================================
