------------------------------- MODULE Persist -------------------------------
(***************************************************************************)
(* save()/load() of every sketch class.                                    *)
(*                                                                         *)
(* Container layer (C20).  np.savez writes a zip archive: for each member  *)
(* a local file header (sizes and CRC are patched in after the data has    *)
(* been written), the member name, a zip64 extra field and the stored      *)
(* data; after all members the central directory (one entry per member)    *)
(* and finally the end-of-central-directory record, the last bytes of the  *)
(* file.  The writer is modelled byte by byte; a crash can strike after    *)
(* any byte and leaves the image written so far.  The reader accepts an    *)
(* image iff it ends with a complete EOCD record preceded by a complete    *)
(* directory whose members are all complete and patched.  CommitLast: an   *)
(* accepted image is the complete file -- the EOCD is the commit record.   *)
(*                                                                         *)
(* Logical layer (C10).  A file carries the class tag and the persistent   *)
(* state; Accepts(loader, cls) says which loader takes which file.         *)
(***************************************************************************)
EXTENDS PersistLogic, Naturals, Sequences, FiniteSets
CONSTANTS MemberLens,      \* sequence of <<header len, name len, data len>>, one per member
          CdLen, EocdLen   \* length of one directory entry / of the EOCD record
VARIABLES image,           \* sequence of byte symbols <<kind, member>>
          patched,         \* set of members whose header has been patched
          pc               \* <<phase, member, bytes written in this phase>> | <<"done">>
vars == <<image, patched, pc>>
NM == Len(MemberLens)
Kinds == {"hdr", "name", "data", "cd", "eocd"}
PhaseLen(ph, m) == CASE ph = "hdr" -> MemberLens[m][1] [] ph = "name" -> MemberLens[m][2]
                     [] ph = "data" -> MemberLens[m][3] [] ph = "cd" -> CdLen [] ph = "eocd" -> EocdLen
NextPhase(ph, m) ==
  CASE ph = "hdr"  -> <<"name", m, 0>>
    [] ph = "name" -> <<"data", m, 0>>
    [] ph = "data" -> <<"patch", m, 0>>
    [] ph = "cd"   -> IF m < NM THEN <<"cd", m + 1, 0>> ELSE <<"eocd", 0, 0>>
    [] ph = "eocd" -> <<"done">>
Init == image = <<>> /\ patched = {} /\ pc = <<"hdr", 1, 0>>
WriteByte ==
  /\ pc[1] \in Kinds
  /\ image' = Append(image, <<pc[1], pc[2]>>)
  /\ pc' = IF pc[3] + 1 = PhaseLen(pc[1], pc[2]) THEN NextPhase(pc[1], pc[2]) ELSE <<pc[1], pc[2], pc[3] + 1>>
  /\ UNCHANGED patched
\* seek back and write sizes + CRC into the member's header (in place: the image length is unchanged)
Patch ==
  /\ pc[1] = "patch"
  /\ patched' = patched \cup {pc[2]}
  /\ pc' = IF pc[2] < NM THEN <<"hdr", pc[2] + 1, 0>> ELSE <<"cd", 1, 0>>
  /\ UNCHANGED image
Next == WriteByte \/ Patch
Spec == Init /\ [][Next]_vars

\* the bytes a complete file consists of
RECURSIVE Rep(_, _)
Rep(x, n) == IF n = 0 THEN <<>> ELSE <<x>> \o Rep(x, n - 1)
RECURSIVE MembersImage(_)
MembersImage(m) ==
  IF m = 0 THEN <<>>
  ELSE MembersImage(m - 1) \o Rep(<<"hdr", m>>, MemberLens[m][1]) \o Rep(<<"name", m>>, MemberLens[m][2])
                          \o Rep(<<"data", m>>, MemberLens[m][3])
RECURSIVE CdImage(_)
CdImage(m) == IF m = 0 THEN <<>> ELSE CdImage(m - 1) \o Rep(<<"cd", m>>, CdLen)
FullImage == MembersImage(NM) \o CdImage(NM) \o Rep(<<"eocd", 0>>, EocdLen)
\* the reader (any crash image is a candidate)
Accept(img, pat) == img = FullImage /\ pat = 1..NM
\* what zipfile demands, stated structurally, implies the above:
EndsWithEocd(img) == Len(img) >= EocdLen /\ SubSeq(img, Len(img) - EocdLen + 1, Len(img)) = Rep(<<"eocd", 0>>, EocdLen)
ReaderAccepts(img, pat) ==
  /\ EndsWithEocd(img)
  /\ LET body == SubSeq(img, 1, Len(img) - EocdLen) IN
       /\ Len(body) >= NM * CdLen
       /\ SubSeq(body, Len(body) - NM * CdLen + 1, Len(body)) = CdImage(NM)       \* directory complete
       /\ SubSeq(body, 1, Len(body) - NM * CdLen) = MembersImage(NM)              \* every member complete
  /\ pat = 1..NM                                                                  \* and its header patched
(* C20 at container level: whatever the crash point, an image the reader accepts is the whole file *)
CommitLast == ReaderAccepts(image, patched) => pc = <<"done">>
ReaderSound == ReaderAccepts(image, patched) <=> Accept(image, patched)
\* EOCD is written last, the directory after all member data
Order == \A i, j \in 1..Len(image) : i < j =>
           /\ image[i][1] = "eocd" => image[j][1] = "eocd"
           /\ image[i][1] = "cd" => image[j][1] \in {"cd", "eocd"}

=============================================================================
