------------------------------ MODULE LogChain ------------------------------
(***************************************************************************)
(* Unbiasedness of the log counter as an exact Markov-chain check (C06).   *)
(* A single collision-free counter receives N unit adds.  With base 2 the  *)
(* counter holding NR + k advances with probability 2^-k and its decoded   *)
(* value rises by 2^k, so P[k] * (Val[NR+k+1] - Val[NR+k]) = 1.  The       *)
(* distribution over counter values is carried exactly: mass[c] is the     *)
(* probability of counter c times 2^(M*N), M = UMax - NR.  Invariant:      *)
(* as long as no add was attempted at the ceiling, the expected decoded    *)
(* value equals the true count N.  (Design-level fact about the update     *)
(* rule of CMLog!LogCounter; the rule is bound to the code by the step     *)
(* transitions validated in Trace_LogCalls.)                               *)
(***************************************************************************)
EXTENDS Naturals
CONSTANTS UMax, NR, NMax
M == UMax - NR
Val(c) == IF c <= NR THEN c ELSE NR + 2 ^ (c - NR) - 1
\* numerator of the advance probability over 2^M
PAdv(c) == IF c >= UMax THEN 0 ELSE IF c < NR THEN 2 ^ M ELSE 2 ^ (M - (c - NR))
VARIABLES n, mass, clipped
Init == n = 0 /\ mass = [c \in 0..UMax |-> IF c = 0 THEN 1 ELSE 0] /\ clipped = FALSE
Next ==
  /\ n < NMax
  /\ n' = n + 1
  /\ mass' = [c \in 0..UMax |->
                mass[c] * (2 ^ M - PAdv(c)) + (IF c > 0 THEN mass[c - 1] * PAdv(c - 1) ELSE 0)]
  /\ clipped' = (clipped \/ mass[UMax] > 0)
Spec == Init /\ [][Next]_<<n, mass, clipped>>
RECURSIVE Sum(_, _)
Sum(f(_), c) == IF c < 0 THEN 0 ELSE f(c) + Sum(f, c - 1)
Weighted(c) == mass[c] * Val(c)
MassOf(c) == mass[c]
TotalMass == Sum(MassOf, UMax) = 2 ^ (M * n)
Unbiased == ~clipped => Sum(Weighted, UMax) = n * 2 ^ (M * n)
\* the two laws the unbiasedness rests on, for every counter of the chain
StepLaw == \A c \in NR..(UMax - 1) : PAdv(c) * (Val(c + 1) - Val(c)) = 2 ^ M
ExactBelow == \A c \in 0..NR : Val(c) = c
=============================================================================
