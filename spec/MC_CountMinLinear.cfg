SPECIFICATION Spec
CONSTANTS
  NAdd <- IntAdd
  NSub <- IntSub
  NLt <- IntLt
  NOf <- IntOf
  NCap <- MCap
  MW = 2
  MD = 2
  MCap = 3
  MaxTruth = 5
  MSlots = 2
  Slots <- MSlotSet
  EnvChoices <- MEnvChoices
  AddVals <- MAddVals
  Lists <- MLists
  Dicts <- MDicts
  NgramArgs <- MNgramArgs
  RecVals <- MRecVals
VIEW view
CONSTRAINT Bound
INVARIANT Lower
INVARIANT Upper
INVARIANT UpperCell
INVARIANT Exact
INVARIANT NAdded
INVARIANT CellsBelowCap
INVARIANT MergeAlgebra
PROPERTY AddEffectProp
PROPERTY MonotoneProp
PROPERTY MergeEffectProp
CHECK_DEADLOCK FALSE
