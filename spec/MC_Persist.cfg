SPECIFICATION Spec
CONSTANTS
  MemberLens <- M5
  CdLen = 2
  EocdLen = 3
INVARIANT CommitLast
INVARIANT ReaderSound
INVARIANT Order
CHECK_DEADLOCK FALSE
