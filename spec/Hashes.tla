------------------------------- MODULE Hashes -------------------------------
(***************************************************************************)
(* FastHash (64 and 32 bit) and MurmurHash3_x86_32, transcribed from the   *)
(* published reference algorithms (smhasher: fasthash.cpp, MurmurHash3.cpp)*)
(* over little-endian byte-limb words, because TLC integers are 32-bit     *)
(* signed.  A word is a tuple of bytes, least significant first:           *)
(*    U64 == [1..8 -> 0..255],  U32 == [1..4 -> 0..255].                   *)
(* Anchored to SMHasher's published verification values (VerifyAll below), *)
(* so the module is an oracle independent of the implementation.           *)
(***************************************************************************)
EXTENDS Naturals, Sequences, Bitwise, TLC

Pow2(n) == 2 ^ n
\* TLC builds [i \in S |-> e] lazily and re-evaluates e on every application; TLCEval forces
\* the tuple once, which keeps every hash linear in the key length.
WZero(n) == TLCEval([i \in 1..n |-> 0])
\* little-endian bytes of a small natural (< 2^31)
WOf(x, n) == TLCEval([i \in 1..n |-> IF i <= 4 THEN (x \div Pow2(8 * (i - 1))) % 256 ELSE 0])
WXor(a, b) == TLCEval([i \in 1..Len(a) |-> a[i] ^^ b[i]])
WOr(a, b)  == TLCEval([i \in 1..Len(a) |-> a[i] | b[i]])
ByteAt(a, i) == IF i >= 1 /\ i <= Len(a) THEN a[i] ELSE 0
\* logical shift right / left by k bits within the word size
WShr(a, k) ==
  LET q == k \div 8  r == k % 8 IN
  TLCEval([i \in 1..Len(a) |-> (ByteAt(a, i + q) \div Pow2(r)) + ((ByteAt(a, i + q + 1) % Pow2(r)) * Pow2(8 - r))])
WShl(a, k) ==
  LET q == k \div 8  r == k % 8 IN
  TLCEval([i \in 1..Len(a) |-> ((ByteAt(a, i - q) * Pow2(r)) % 256) + (ByteAt(a, i - q - 1) \div Pow2(8 - r))])
\* addition and multiplication modulo 2^(8n): carries propagated limb by limb
WAdd(a, b) ==
  LET n == Len(a)
      c[i \in 0..n] == IF i = 0 THEN 0 ELSE (a[i] + b[i] + c[i - 1]) \div 256
  IN  TLCEval([i \in 1..n |-> (a[i] + b[i] + c[i - 1]) % 256])
WSub(a, b) ==          \* a - b modulo 2^(8n)
  LET n == Len(a)
      br[i \in 0..n] == IF i = 0 THEN 0 ELSE IF a[i] - b[i] - br[i - 1] < 0 THEN 1 ELSE 0
  IN  TLCEval([i \in 1..n |-> (a[i] + 256 - b[i] - br[i - 1]) % 256])
WMul(a, b) ==
  LET n == Len(a)
      col(k) == LET t[i \in 0..k] == IF i = 0 THEN 0 ELSE t[i - 1] + a[i] * b[k + 1 - i] IN t[k]
      acc[k \in 0..n] == IF k = 0 THEN 0 ELSE col(k) + (acc[k - 1] \div 256)
  IN  TLCEval([k \in 1..n |-> acc[k] % 256])
WRotl(a, k) == WOr(WShl(a, k), WShr(a, 8 * Len(a) - k))
WIsZero(a) == \A i \in 1..Len(a) : a[i] = 0

\* value of the word modulo a small natural m (m < 2^22), Horner from the top byte
WMod(a, m) ==
  LET r[i \in 0..Len(a)] == IF i = 0 THEN 0 ELSE (r[i - 1] * 256 + a[Len(a) + 1 - i]) % m
  IN  r[Len(a)]

\* the bytes key[from .. from+n-1] as an n-byte little-endian word, zero padded
Block(key, from, n) == TLCEval([i \in 1..n |-> IF from + i - 1 <= Len(key) THEN key[from + i - 1] ELSE 0])

---------------------------------------------------------------------------
(* FastHash *)
FHM   == <<101, 25, 109, 30, 242, 85, 3, 136>>    \* 0x880355f21e6d1965
FHMIX == <<55, 92, 50, 244, 155, 89, 39, 33>>     \* 0x2127599bf4325c37
FHMix(h0) ==
  LET h1 == WXor(h0, WShr(h0, 23))
      h2 == WMul(h1, FHMIX)
  IN  WXor(h2, WShr(h2, 47))

\* seed: U64.  One step per 8-byte block, then the 1..7 byte tail, then the final mix.
\* (recursive operators with forced intermediate words: TLC does not cache values inside
\* recursive function definitions)
FHStep(h, v) == TLCEval(WMul(WXor(h, FHMix(v)), FHM))
RECURSIVE FHBlocks(_, _, _, _)
FHBlocks(h, key, i, nb) ==
  IF i > nb THEN h ELSE FHBlocks(FHStep(h, Block(key, 8 * (i - 1) + 1, 8)), key, i + 1, nb)
FastHash64(key, seed) ==
  LET len == Len(key)
      nb  == len \div 8
      h0  == WXor(seed, WMul(WOf(len, 8), FHM))
      hb  == FHBlocks(h0, key, 1, nb)
      ht  == IF len % 8 = 0 THEN hb ELSE FHStep(hb, Block(key, 8 * nb + 1, 8))
  IN  FHMix(ht)

\* h - (h >> 32), truncated to 32 bits
FastHash32(key, seed) ==
  LET h == FastHash64(key, seed) IN SubSeq(WSub(h, WShr(h, 32)), 1, 4)

---------------------------------------------------------------------------
(* MurmurHash3_x86_32; seed: U32 *)
MC1 == <<81, 45, 158, 204>>      \* 0xcc9e2d51
MC2 == <<147, 53, 135, 27>>      \* 0x1b873593
MC3 == <<100, 107, 84, 230>>     \* 0xe6546b64
MF1 == <<107, 202, 235, 133>>    \* 0x85ebca6b
MF2 == <<53, 174, 178, 194>>     \* 0xc2b2ae35
MFive == <<5, 0, 0, 0>>
MFmix(h0) ==
  LET h1 == WXor(h0, WShr(h0, 16))
      h2 == WMul(h1, MF1)
      h3 == WXor(h2, WShr(h2, 13))
      h4 == WMul(h3, MF2)
  IN  WXor(h4, WShr(h4, 16))
MK(k) == WMul(WRotl(WMul(k, MC1), 15), MC2)
MBody(h, k) == TLCEval(WAdd(WMul(WRotl(WXor(h, MK(k)), 13), MFive), MC3))
RECURSIVE MBlocks(_, _, _, _)
MBlocks(h, key, i, nb) ==
  IF i > nb THEN h ELSE MBlocks(MBody(h, Block(key, 4 * (i - 1) + 1, 4)), key, i + 1, nb)
Murmur3(key, seed) ==
  LET len == Len(key)
      nb  == len \div 4
      hb  == MBlocks(seed, key, 1, nb)
      ht  == IF len % 4 = 0 THEN hb ELSE WXor(hb, MK(Block(key, 4 * nb + 1, 4)))
  IN  MFmix(WXor(ht, WOf(len, 4)))

---------------------------------------------------------------------------
(* number of leading zeros of a U64, as sketchnu.hyperloglog._n_leading_zeros64
   computes it (binary search by halving), and its definition *)
Nlz64(x0) ==
  LET s1 == WShr(x0, 32)  n1 == IF WIsZero(s1) THEN 64 ELSE 32  x1 == IF WIsZero(s1) THEN x0 ELSE s1
      s2 == WShr(x1, 16)  n2 == IF WIsZero(s2) THEN n1 ELSE n1 - 16  x2 == IF WIsZero(s2) THEN x1 ELSE s2
      s3 == WShr(x2, 8)   n3 == IF WIsZero(s3) THEN n2 ELSE n2 - 8   x3 == IF WIsZero(s3) THEN x2 ELSE s3
      s4 == WShr(x3, 4)   n4 == IF WIsZero(s4) THEN n3 ELSE n3 - 4   x4 == IF WIsZero(s4) THEN x3 ELSE s4
      s5 == WShr(x4, 2)   n5 == IF WIsZero(s5) THEN n4 ELSE n4 - 2   x5 == IF WIsZero(s5) THEN x4 ELSE s5
      s6 == WShr(x5, 1)
  IN  IF ~WIsZero(s6) THEN n5 - 2 ELSE n5 - x5[1]
\* definition: 64 - (position of the highest set bit)
BitLen8(b) == IF b = 0 THEN 0 ELSE CHOOSE n \in 1..8 : Pow2(n - 1) <= b /\ b < Pow2(n)
BitLen(x) == IF WIsZero(x) THEN 0
             ELSE LET i == CHOOSE j \in 1..Len(x) : x[j] # 0 /\ \A q \in (j + 1)..Len(x) : x[q] = 0
                  IN  8 * (i - 1) + BitLen8(x[i])
NlzDef(x) == 64 - BitLen(x)

\* HyperLogLog placement of a 64-bit hash for precision p: register index = low p bits,
\* rank = leading zeros of (h >> p) - p + 1
HllIdx(h, p)  == (h[1] + 256 * h[2]) % Pow2(p)
HllRank(h, p) == Nlz64(WShr(h, p)) - p + 1

\* count-min / heavy-hitter placement: row r (0-based) uses FastHash64 seeded with r
CMCol(key, r, W) == WMod(FastHash64(key, WOf(r, 8)), W) + 1

---------------------------------------------------------------------------
(* SMHasher VerificationTest: keys {0,1,..,i-1} for i = 0..255 hashed with seed 256-i;
   the 256 results (little-endian) are concatenated and hashed with seed 0; the first
   four bytes are the verification value. *)
VKey(i) == TLCEval([j \in 1..i |-> j - 1])
\* (LET definitions are re-evaluated by TLC at every reference, operator arguments are
\* cached inside actions: intermediate results are therefore passed as arguments)
VResults(H(_, _), sw) == TLCEval([i \in 0..255 |-> H(VKey(i), WOf(256 - i, sw))])
VConcat(r, nbytes) == TLCEval([q \in 1..(256 * nbytes) |-> r[(q - 1) \div nbytes][((q - 1) % nbytes) + 1]])
Verify(H(_, _), nbytes, sw) == SubSeq(H(VConcat(VResults(H, sw), nbytes), WZero(sw)), 1, 4)
\* (no zero-arity constant definition evaluates a hash: TLC evaluates those eagerly at start-up)
VerifyFast64(u) == Verify(FastHash64, 8, 8) = <<167, 49, 98, 161>>    \* 0xA16231A7
VerifyFast32(u) == Verify(FastHash32, 4, 8) = <<252, 26, 72, 233>>    \* 0xE9481AFC
VerifyMurmur(u) == Verify(Murmur3, 4, 4)    = <<227, 126, 245, 176>>   \* 0xB0F57EE3
=============================================================================
