SPECIFICATION Spec
INVARIANT TraceOK
CHECK_DEADLOCK TRUE
