------------------------- MODULE ApaCountMinLinear -------------------------
(***************************************************************************)
(* Unbounded-history argument for C01 on a small shape, discharged by      *)
(* Apalache as an inductive invariant (Init => IndInv, IndInv /\ Next =>   *)
(* IndInv'): 3 keys, 2 rows x 2 columns, 2 sketches, ANY placement, any    *)
(* multiplicities (unbounded integers), adds and merges in any order and   *)
(* number.  The kernel below is CMLin!LinAdd / LinMerge specialised to     *)
(* D = 2 (Apalache has no recursive operators); the ceiling Cap is a       *)
(* symbolic constant > 0.                                                  *)
(***************************************************************************)
EXTENDS Integers, Apalache
CONSTANT
  \* @type: Int;
  Cap
ASSUME Cap > 0
CInit == Cap \in Nat /\ Cap > 0
VARIABLES
  \* @type: Int -> (Int -> Int);
  col,     \* key -> row -> column
  \* @type: Int -> (Int -> (Int -> Int));
  tbl,     \* slot -> row -> column -> counter
  \* @type: Int -> (Int -> Int);
  truth    \* slot -> key -> total multiplicity
Keys == {1, 2, 3}
Rows == {1, 2}
Cols == {1, 2}
Slots == {1, 2}
Min2(a, b) == IF a <= b THEN a ELSE b
Est(s, k) == Min2(Cap, Min2(tbl[s][1][col[k][1]], tbl[s][2][col[k][2]]))
Load(s, r, c) == (IF col[1][r] = c THEN truth[s][1] ELSE 0) + (IF col[2][r] = c THEN truth[s][2] ELSE 0)
               + (IF col[3][r] = c THEN truth[s][3] ELSE 0)
Init ==
  /\ col \in [Keys -> [Rows -> Cols]]
  /\ tbl = [s \in Slots |-> [r \in Rows |-> [c \in Cols |-> 0]]]
  /\ truth = [s \in Slots |-> [k \in Keys |-> 0]]
Add(s, k, v0) ==
  LET v == Min2(v0, Cap)
      m == Est(s, k)
  IN  /\ truth' = [truth EXCEPT ![s][k] = @ + v0]
      /\ UNCHANGED col
      /\ IF m = Cap THEN UNCHANGED tbl
         ELSE LET new == m + Min2(v, Cap - m) IN
              tbl' = [tbl EXCEPT ![s] = [r \in Rows |-> [c \in Cols |->
                        IF c = col[k][r] /\ tbl[s][r][c] < new THEN new ELSE tbl[s][r][c]]]]
Merge(s, t) ==
  /\ tbl' = [tbl EXCEPT ![s] = [r \in Rows |-> [c \in Cols |-> Min2(Cap, tbl[s][r][c] + tbl[t][r][c])]]]
  /\ truth' = [truth EXCEPT ![s] = [k \in Keys |-> truth[s][k] + truth[t][k]]]
  /\ UNCHANGED col
Next ==
  \/ \E s \in Slots, k \in Keys, v \in Nat : Add(s, k, v)
  \/ \E s \in Slots, t \in Slots : Merge(s, t)
\* the inductive strengthening of C01: cell level
Shape ==
  /\ DOMAIN col = Keys /\ \A k \in Keys : DOMAIN col[k] = Rows /\ \A r \in Rows : col[k][r] \in Cols
  /\ DOMAIN tbl = Slots /\ \A s \in Slots : DOMAIN tbl[s] = Rows /\ \A r \in Rows : DOMAIN tbl[s][r] = Cols
  /\ DOMAIN truth = Slots /\ \A s \in Slots : DOMAIN truth[s] = Keys
Body ==
  /\ \A s \in Slots, k \in Keys : truth[s][k] >= 0
  /\ \A s \in Slots, r \in Rows, c \in Cols :
        /\ tbl[s][r][c] >= 0 /\ tbl[s][r][c] <= Cap
        /\ tbl[s][r][c] <= Load(s, r, c)                                  \* UpperCell
  /\ \A s \in Slots, k \in Keys, r \in Rows :
        tbl[s][r][col[k][r]] >= Min2(truth[s][k], Cap)                    \* LowerCell
IndInv == Shape /\ Body
\* an arbitrary state satisfying the invariant (Apalache value generators)
IndInit == /\ col = Gen(3) /\ tbl = Gen(3) /\ truth = Gen(3) /\ IndInv
\* what C01 states, implied by IndInv
C01 == \A s \in Slots, k \in Keys :
         /\ Est(s, k) >= Min2(truth[s][k], Cap)
         /\ \A r \in Rows : Est(s, k) <= Min2(Cap, Load(s, r, col[k][r]))
=============================================================================
\* Status (measured): `apalache-mc check --init=Init --inv=IndInv --length=0 --cinit=CInit` reports NoError in 5 s
\* (base case).  The inductive step `--init=IndInit --inv=IndInv --length=1` did not finish within a 40 minute
\* timeout on this machine (nested function generators + unbounded multiplicities), and `--init=IndInit --inv=C01
\* --length=0` not within 15 minutes.  The module is kept as an experiment; no check depends on it.
