SPECIFICATION Spec
INVARIANT TraceOK
INVARIANT LawsHold
CHECK_DEADLOCK TRUE
