---------------------------- MODULE MergeCompat ----------------------------
(***************************************************************************)
(* C15: which pairs of sketches merge.  A sketch is described by its       *)
(* parameter record:                                                       *)
(*   count-min : [fam |-> "cm", cls, W, D, maxc, nr]  (maxc, nr = 0 for    *)
(*               the linear class, which has neither)                      *)
(*   HLL       : [fam |-> "hll", p, seed]                                  *)
(*   HH        : [fam |-> "hh", W, D, L]      (phi does not matter)        *)
(* a.merge(b) succeeds iff Compatible(a, b); otherwise it raises TypeError *)
(* and changes NOTHING.  Trace events carry the two parameter records, the *)
(* outcome and the content digests of both operands before and after.      *)
(***************************************************************************)
EXTENDS Naturals, Sequences, Json, IOUtils, TLC
Compatible(a, b) ==
  /\ a.fam = b.fam
  /\ CASE a.fam = "cm"  -> a.cls = b.cls /\ a.W = b.W /\ a.D = b.D /\ a.maxc = b.maxc /\ a.nr = b.nr
       [] a.fam = "hll" -> a.p = b.p /\ a.seed = b.seed
       [] a.fam = "hh"  -> a.W = b.W /\ a.D = b.D /\ a.L = b.L

\* design-level sanity, checked by TLC over the whole grid of the trace
Params == JsonDeserialize(IOEnv.TRACE_FILE).params
Laws == \A i, j \in 1..Len(Params) :
          /\ Compatible(Params[i], Params[i])
          /\ Compatible(Params[i], Params[j]) = Compatible(Params[j], Params[i])
          /\ Params[i].fam = Params[j].fam =>
               (Compatible(Params[i], Params[j]) <=> Params[i].sig = Params[j].sig)

VARIABLES l, ok
Events == JsonDeserialize(IOEnv.TRACE_FILE).events
EventOK(e) ==
  LET a == Params[e.a]  b == Params[e.b] IN
  IF Compatible(a, b)
  THEN /\ e.outcome = "ok"                      \* sketches that agree always merge
       /\ e.b_before = e.b_after                \* the merged-in operand is never modified
  ELSE /\ e.outcome = "TypeError"               \* refused ...
       /\ e.a_before = e.a_after                \* ... and both operands bit-for-bit unchanged
       /\ e.b_before = e.b_after
Init == l = 1 /\ ok = TRUE
Next ==
  /\ l <= Len(Events)
  /\ LET hi  == IF l + 31 <= Len(Events) THEN l + 31 ELSE Len(Events)
         bad == {i \in l..hi : ~EventOK(Events[i])}
     IN  /\ ok' = (bad = {})
         /\ IF bad = {} THEN TRUE ELSE PrintT(<<"MISMATCH", 1, l, ToJson([bad |-> Events[CHOOSE i \in bad : TRUE]])>>)
         /\ l' = hi + 1
Done == l > Len(Events) /\ UNCHANGED <<l, ok>>
Spec == Init /\ [][Next \/ Done]_<<l, ok>>
TraceOK == ok
LawsHold == Laws
=============================================================================
