---------------------------- MODULE PersistLogic ----------------------------
(* Logical layer of save()/load() (C10): which loader accepts which file.  The
   persistent state a load reproduces is spelled out by the SaveLoad action of every
   sketch module (CountMinLinear, CountMinLog, HeavyHitters, HyperLogLog). *)
CmClasses == {"linear", "log16", "log8"}
Accepts(loader, cls) ==
  \/ loader = cls                                     \* class loaders take their own files only
  \/ loader = "countmin.load" /\ cls \in CmClasses    \* the module-level loader dispatches
=============================================================================
