------------------------------ MODULE SharedMem ------------------------------
(***************************************************************************)
(* Shared-memory sketches (C16).  One owner (created with                  *)
(* shared_memory=True) and views attached to its block through             *)
(* attach_existing_shm / helpers.attach_shared_memory.  Every operation    *)
(* through any live handle acts on the ONE segment state; an in-memory     *)
(* twin receives the same operations.  Dropping a view only closes its     *)
(* mapping; dropping the owner closes and unlinks the segment (the name    *)
(* disappears from the system; already attached views keep working on the  *)
(* orphaned mapping).                                                      *)
(***************************************************************************)
EXTENDS Naturals, Sequences, FiniteSets, TLC, Json
CONSTANTS Views,        \* set of view handle ids
          Ops,          \* operation ids a handle may apply (add of some key / multiplicity)
          MaxOps
VARIABLES seg,          \* [exists, content]  content: sequence of ops applied to the segment
          owner,        \* "none" | "alive" | "dropped"
          view,         \* view id -> "none" | "attached" | "dropped" | "failed" (FileNotFoundError)
          twin,         \* ops applied to the in-memory twin
          op
vars == <<seg, owner, view, twin, op>>
pview == <<seg, owner, view, twin>>
Init == /\ seg = [exists |-> FALSE, content |-> <<>>] /\ owner = "none"
        /\ view = [v \in Views |-> "none"] /\ twin = <<>> /\ op = [name |-> "init"]
CreateOwner ==
  /\ owner = "none" /\ owner' = "alive" /\ seg' = [exists |-> TRUE, content |-> <<>>]
  /\ op' = [name |-> "create"] /\ UNCHANGED <<view, twin>>
Attach(v) ==
  /\ view[v] = "none" /\ owner # "none"
  /\ view' = [view EXCEPT ![v] = IF seg.exists THEN "attached" ELSE "failed"]
  /\ op' = [name |-> "attach", v |-> v, ok |-> seg.exists] /\ UNCHANGED <<seg, owner, twin>>
\* h = 0 is the owner
Live(h) == IF h = 0 THEN owner = "alive" ELSE view[h] = "attached"
Apply(h, o) ==
  /\ Live(h) /\ Len(twin) < MaxOps
  /\ seg' = [seg EXCEPT !.content = Append(@, o)]
  /\ twin' = Append(twin, o)
  /\ op' = [name |-> "apply", h |-> h, o |-> o] /\ UNCHANGED <<owner, view>>
DropView(v) ==
  /\ view[v] = "attached" /\ view' = [view EXCEPT ![v] = "dropped"]
  /\ op' = [name |-> "drop_view", v |-> v] /\ UNCHANGED <<seg, owner, twin>>
DropOwner ==
  /\ owner = "alive" /\ owner' = "dropped" /\ seg' = [seg EXCEPT !.exists = FALSE]
  /\ op' = [name |-> "drop_owner"] /\ UNCHANGED <<view, twin>>
Next == \/ CreateOwner \/ DropOwner
        \/ \E v \in Views : Attach(v) \/ DropView(v)
        \/ \E h \in {0} \cup Views, o \in Ops : Apply(h, o)
Spec == Init /\ [][Next]_vars
(* all views observe one state, equal to the twin's *)
OneState == seg.content = twin
(* the name is in the system exactly while the owner lives *)
OwnerUnlinks == seg.exists <=> owner = "alive"
ViewNeverUnlinks == [][\A v \in Views : (op'.name = "drop_view") => seg'.exists = seg.exists]_vars
AttachFailsAfterUnlink == \A v \in Views : view[v] = "failed" => owner = "dropped"
LogEdge == PrintT(<<"EDGE", ToJson([f |-> [seg |-> seg, owner |-> owner, view |-> view, twin |-> twin], o |-> op',
                                    t |-> [seg |-> seg', owner |-> owner', view |-> view', twin |-> twin']])>>)

(* layout: the offsets __init__ and attach_existing_shm compute for the arrays of a block agree *)
CmInit(w, d, isz)   == [cms |-> <<0, isz * w * d>>, nar |-> <<isz * w * d, isz * w * d + 16>>]
CmAttach(w, d, isz) == LET nbytes == w * d * isz IN [cms |-> <<0, nbytes>>, nar |-> <<nbytes, nbytes + 16>>]
HhInit(w, d, l) ==
  LET a == l * w * d  b == a + 4 * w * d  c == b + w * d IN
  [lhh |-> <<0, a>>, cnt |-> <<a, b>>, klen |-> <<b, c>>, nar |-> <<c, c + 16>>]
HhAttach(w, d, l) ==
  LET lhhN == d * w * l  cntN == d * w * 4  klN == d * w IN
  [lhh |-> <<0, lhhN>>, cnt |-> <<lhhN, lhhN + cntN>>, klen |-> <<lhhN + cntN, lhhN + cntN + klN>>,
   nar |-> <<lhhN + cntN + klN, lhhN + cntN + klN + 16>>]
LayoutAgree(u) ==
  /\ \A w \in 1..4, d \in 1..4, isz \in {1, 2, 4} : CmInit(w, d, isz) = CmAttach(w, d, isz)
  /\ \A w \in 1..4, d \in 1..4, l \in 1..5 : HhInit(w, d, l) = HhAttach(w, d, l)
Layout == LayoutAgree(0)
=============================================================================
