----------------------------- MODULE LogChannel -----------------------------
(***************************************************************************)
(* Specification growth: the one process of helpers.parallel_add that      *)
(* ParallelAdd.tla leaves out -- the log process (_log_worker) and the     *)
(* unbounded log queue every other process writes to.                      *)
(*                                                                         *)
(* lg.pend : messages put on the log queue and not yet consumed            *)
(* lg.got  : messages the log process has emitted                          *)
(* lg.pill : main has put the poison pill (None) behind everything else    *)
(* lg.st   : "running" | "done" (returned on the pill) | "killed" (by the  *)
(*           monitor, together with the workers, when a worker died)       *)
(*                                                                         *)
(* Every action of ParallelAdd is extended with the messages the code puts *)
(* at that point (helpers.py: _fill_queue one DEBUG per item and one INFO  *)
(* after the pills; _worker one INFO at start, one DEBUG per item plus one *)
(* ERROR per failing item, one INFO at the pill; parallel_add one INFO per *)
(* merged sketch type, parallel_merging one DEBUG per round).  main's      *)
(* "put the pill, join the log process" is two steps: MergePut (a          *)
(* stuttering step of ParallelAdd) and the return itself, enabled once the *)
(* log process is done.  The log process consumes one message per step,    *)
(* interleaved with everything else.                                       *)
(*                                                                         *)
(* Checked: the extension refines ParallelAdd (PROPERTY BaseSpec), no      *)
(* message is lost before a return, the log process never outlives a       *)
(* return, is killed on a worker's death -- and IS left running when a     *)
(* merge process dies (RuntimeError propagates before the pill): an        *)
(* observation about the code, stated as OrphanOnlyByMergerDeath.          *)
(***************************************************************************)
EXTENDS MC_ParallelAdd
VARIABLES lg
lvars == <<vars, lg>>

Put(n)  == lg' = [lg EXCEPT !.pend = @ + n]
Rounds(n) == IF n <= 1 THEN 0 ELSE 1 + (IF n <= 2 THEN 0 ELSE IF n <= 4 THEN 1 ELSE IF n <= 8 THEN 2 ELSE 3)
MergerDeath == MergerDies > 0 /\ MergerDies <= NMergers(N)

LInit == Init /\ lg = [st |-> "running", pend |-> 0, got |-> 0, pill |-> FALSE]

LFillPut == FillPut /\ Put(IF fill.idx <= K THEN 1 ELSE IF fill.idx = K + N THEN 1 ELSE 0)
LWStart(w) == WStart(w) /\ Put(1)
LWGet(w) == WGet(w) /\ UNCHANGED lg
LWProcess(w) ==
  WProcess(w) /\ IF DieAt = <<w, wcnt[w]>> THEN UNCHANGED lg
                 ELSE Put(IF Fault[wcur[w]] = "ok" THEN 1 ELSE 2)
LWPill(w) == WPill(w) /\ Put(1)
LMonitorPass ==
  MonitorPass /\ IF \E w \in W : Bad(w)
                 THEN lg' = [lg EXCEPT !.st = IF @ = "running" THEN "killed" ELSE @]     \* log_process.kill()
                 ELSE UNCHANGED lg
LJoinFill == JoinFill /\ UNCHANGED lg
LJoinWorkers == JoinWorkers /\ UNCHANGED lg
LPreLog == PreLog /\ IF closed THEN UNCHANGED lg ELSE Put(1)
LMergeFails == MergeFails /\ UNCHANGED lg              \* RuntimeError: the pill is never sent
\* the merges are done: one DEBUG per round, then the pill
MergePut ==
  /\ mpc = "merge" /\ ~MergerDeath /\ ~lg.pill
  /\ lg' = [lg EXCEPT !.pend = @ + Rounds(N), !.pill = TRUE]
  /\ UNCHANGED vars
\* log_process.join() returned
LReturn == lg.pill /\ lg.st = "done" /\ MergeAndReturn /\ UNCHANGED lg

LogConsume ==
  /\ lg.st = "running" /\ lg.pend > 0
  /\ lg' = [lg EXCEPT !.pend = @ - 1, !.got = @ + 1]
  /\ UNCHANGED vars
LogExit ==
  /\ lg.st = "running" /\ lg.pend = 0 /\ lg.pill
  /\ lg' = [lg EXCEPT !.st = "done"]
  /\ UNCHANGED vars

LNext ==
  \/ LFillPut
  \/ \E w \in W : LWStart(w) \/ LWGet(w) \/ LWProcess(w) \/ LWPill(w)
  \/ LMonitorPass \/ LJoinFill \/ LJoinWorkers \/ LPreLog \/ LMergeFails \/ MergePut \/ LReturn
  \/ LogConsume \/ LogExit
  \/ (Terminated /\ ~ENABLED (LogConsume \/ LogExit) /\ UNCHANGED lvars)
LSpec == LInit /\ [][LNext]_lvars
LFairness ==
  /\ WF_lvars(LFillPut) /\ WF_lvars(LMonitorPass) /\ WF_lvars(LJoinFill) /\ WF_lvars(LJoinWorkers)
  /\ WF_lvars(LPreLog) /\ WF_lvars(LMergeFails) /\ WF_lvars(MergePut) /\ WF_lvars(LReturn)
  /\ WF_lvars(LogConsume) /\ WF_lvars(LogExit)
  /\ \A w \in W : WF_lvars(LWStart(w)) /\ WF_lvars(LWGet(w)) /\ WF_lvars(LWProcess(w)) /\ WF_lvars(LWPill(w))
LFairSpec == LSpec /\ LFairness

-----------------------------------------------------------------------------
BaseSpec == Spec                                   \* the extension refines ParallelAdd (identity mapping)
Failing == {i \in Items : Fault[i] # "ok"}
\* every message that was put before the return has been emitted: K + 1 by the filler, per worker
\* start and finish, one per processed item plus one per failing item, one INFO and the rounds by main
NoLogLost ==
  mpc = "returned" => /\ lg.st = "done" /\ lg.pend = 0
                      /\ lg.got = (K + 1) + 2 * N + K + Cardinality(Failing) + 1 + Rounds(N)
LoggerKilledOnDeath == (mpc = "raised" /\ \E w \in W : wst[w] = "dead") => lg.st = "killed"
OrphanOnlyByMergerDeath == (Terminated /\ lg.st = "running") => MergerDeath
MergerDeathLeavesLogger == (mpc = "raised" /\ MergerDeath /\ \A w \in W : wst[w] # "dead") => lg.st = "running"
LTermination == <>(Terminated /\ (lg.st \in {"done", "killed"} \/ MergerDeath))
LTerminalOutcome == (Terminated /\ ~ENABLED (LogConsume \/ LogExit)) =>
                       PrintT(<<"LOGOUTCOME", ToJson([st |-> mpc, logger |-> lg.st, pend |-> lg.pend, got |-> lg.got])>>)
=============================================================================
