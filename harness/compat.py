"""C15: every ordered pair of a configuration grid per family is merged for real; outcome and
before/after digests of both operands are validated against spec/MergeCompat.tla."""
import hashlib
import json
import os

import numpy as np

import common
from common import run_tlc, workdir, MachineryError
import impl


def digest(sk):
    h = hashlib.sha256()
    for name in ("cms", "n_added_records", "registers", "lhh", "lhh_count", "key_lens"):
        a = getattr(sk, name, None)
        if a is not None:
            h.update(name.encode())
            h.update(np.ascontiguousarray(a).tobytes())
    return h.hexdigest()[:24]


def cm_grid(rng, extra=0):
    base = dict(cls="linear", W=8, D=3, maxc=0, nr=0)
    g = [base, dict(base, W=9), dict(base, D=2)]
    for cls, nr0 in (("log16", 1023), ("log8", 15)):
        b = dict(cls=cls, W=8, D=3, maxc=2**32 - 1, nr=nr0)
        g += [b, dict(b, W=9), dict(b, D=2), dict(b, maxc=2**32 - 2), dict(b, maxc=10**6), dict(b, nr=nr0 + 1),
              dict(b, nr=0),
              # neighbouring values that are indistinguishable after conversion to float64
              dict(b, maxc=2**40), dict(b, maxc=2**40 + 1), dict(b, maxc=2**60), dict(b, maxc=2**60 + 1),
              dict(b, maxc=2**63 - 1), dict(b, maxc=2**63), dict(b, maxc=2**60, nr=nr0 + 1)]
    for _ in range(extra):
        cls = rng.choice(["linear", "log16", "log8"])
        W, D = rng.choice([1, 2, 8]), rng.choice([1, 3])
        if cls == "linear":
            g.append(dict(cls=cls, W=W, D=D, maxc=0, nr=0))
        else:
            g.append(dict(cls=cls, W=W, D=D, maxc=rng.choice([10**6, 2**32 - 1, 2**40]), nr=rng.choice([0, 5, 15])))
    return [dict(x, fam="cm") for x in g]


def make(p):
    if p["fam"] == "cm":
        if p["cls"] == "linear":
            return impl.countmin.CountMinLinear(p["W"], p["D"])
        return impl.CM_CLASSES[p["cls"]](p["W"], p["D"], p["maxc"], p["nr"])
    if p["fam"] == "hll":
        return impl.hyperloglog.HyperLogLog(p["p"], p["seed"])
    return impl.heavyhitters.HeavyHitters(p["W"], p["D"], p["L"], p.get("phi"))


def sig(p):
    if p["fam"] == "cm":
        return "cm/%s/%d/%d/%d/%d" % (p["cls"], p["W"], p["D"], p["maxc"], p["nr"])
    if p["fam"] == "hll":
        return "hll/%d/%d" % (p["p"], p["seed"])
    return "hh/%d/%d/%d" % (p["W"], p["D"], p["L"])


def enc(p):
    """JSON-safe parameter record (64-bit values as strings)."""
    q = {k: (str(v) if k in ("maxc", "seed") else v) for k, v in p.items() if k != "phi"}
    q["sig"] = sig(p)
    return q


def run_grid(report, rng, quick):
    grids = [cm_grid(rng, 0 if quick else 8)]
    hb = dict(fam="hll", p=10, seed=0)
    grids.append([hb, dict(hb, p=11), dict(hb, p=7), dict(hb, seed=1), dict(hb, seed=2**63), dict(hb, seed=2**64 - 1),
                  dict(hb, p=16, seed=1)])
    h2 = dict(fam="hh", W=4, D=2, L=4)
    grids.append([h2, dict(h2, W=5), dict(h2, D=3), dict(h2, L=5), dict(h2, L=3), dict(h2, phi=0.5), dict(h2, W=1, D=1)])
    params, events = [], []
    keys = [b"a", b"b", b"\x00", b"abc", b"zz"]
    for g in grids:
        off = len(params)
        params += g
        for i, pa in enumerate(g):
            for j, pb in enumerate(g):
                try:
                    a, b = make(pa), make(pb)
                except ValueError:
                    report.cov.setdefault("skipped_configs", []).append([sig(pa), sig(pb)])
                    continue              # a refused constructor is C18's business, not C15's
                for n, k in enumerate(keys):          # both non-empty, different contents
                    a.add(k, n + 1)
                    b.add(k[::-1] + b"x", 2 * n + 1)
                da, db = digest(a), digest(b)
                try:
                    a.merge(b)
                    outcome = "ok"
                except TypeError:
                    outcome = "TypeError"
                except Exception as exc:      # any other exception is reported as its type
                    outcome = type(exc).__name__
                events.append({"a": off + i + 1, "b": off + j + 1, "outcome": outcome,
                               "a_before": da, "a_after": digest(a), "b_before": db, "b_after": digest(b)})
    path = os.path.join(workdir(), "compat.json")
    with open(path, "w") as f:
        json.dump({"params": [enc(p) for p in params], "events": events}, f)
    cfg = os.path.join(common.SPEC, "MergeCompat.cfg")
    r = run_tlc("MergeCompat", cfg, env={"TRACE_FILE": path}, workers=1, tag="compat")
    os.unlink(path)
    report.add_tlc("MergeCompat (pairs=%d)" % len(events), r)
    if r.ok:
        report.cov["traces_validated_against_impl"] += len(events)
        report.cov["evaluations"] += len(events)
        report.count_action("merge_ok", sum(e["outcome"] == "ok" for e in events))
        report.count_action("merge_refused", sum(e["outcome"] != "ok" for e in events))
        report.sample({"pair": [enc(params[events[1]["a"] - 1]), enc(params[events[1]["b"] - 1])], "event": events[1]})
        return True
    detail = ""
    for p in r.prints:
        if p.startswith('<<"MISMATCH"'):
            detail = common.tla_string_payloads(p)[-1]
    bad = None
    try:
        bad = json.loads(detail)["bad"]
    except Exception:
        pass
    what = "merge pair rejected by MergeCompat (%s %s): %s" % (r.kind, r.violated, detail[:500])
    if bad:
        what += " a=%s b=%s" % (enc(params[bad["a"] - 1]), enc(params[bad["b"] - 1]))
    report.violation(what, {"kind": "compat", "event": bad, "signature": {"compat": bad and bad.get("outcome")}})
    return False
