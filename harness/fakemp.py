"""A deterministic, in-process stand-in for the multiprocessing context used by
sketchnu.helpers.parallel_add: `Process` is a baton-scheduled thread (exactly one runs at a
time), `Queue` blocks by yielding to the scheduler, `sleep` yields.  The real
parallel_add / _fill_queue / _worker / parallel_merging / _merge_worker code and real
shared-memory sketches run unchanged under it (test-side replacement of
helpers.get_context and helpers.sleep; no source change).

The only scheduling decision that matters for the result -- which worker performs each
successive dequeue from the item queue -- is dictated by `assign` (a list of worker ids);
everything else is round-robin, hence every run is reproducible."""
import threading

import impl


class Hang(Exception):
    """No thread can make progress (the real system would hang)."""


class WorkerDeath(BaseException):
    """Raised inside a callback to simulate the death of the worker process; `code` is the exit code the
    process ends with (positive: os._exit(k) / uncaught error; negative: killed by a signal, e.g. -9)."""
    code = 1


class StandInUnsupported(Exception):
    """The tree under test drives its processes through an interface this stand-in does not provide
    (e.g. after a refactoring of the monitor loop).  Not a verdict about the implementation: the
    checks fall back to real spawned processes."""


def _standin_fault(exc):
    """True when `exc` was caused by the stand-in's incompleteness rather than by the library."""
    if isinstance(exc, (Hang, WorkerDeath)):
        return False
    if isinstance(exc, ValueError) and "is closed" in str(exc):
        return False                       # a modelled behaviour: put() on a queue the monitor closed
    if "Fake" in repr(exc) or "_Sentinel" in repr(exc):
        return True
    tb = exc.__traceback__
    last = None
    while tb is not None:
        last = tb
        tb = tb.tb_next
    if last is not None and last.tb_frame.f_code.co_filename == __file__:
        # raised by the stand-in itself: only the modelled behaviours are legitimate
        return not (isinstance(exc, ValueError) and "is closed" in str(exc))
    return False


class _Sentinel:
    def __init__(self, proc):
        self.proc = proc


class Sched:
    def __init__(self, assign=None, max_steps=200000, sched_seed=None):
        self.cv = threading.Condition()
        self.threads = []          # _T records, main first
        self.turn = None
        self.assign = list(assign) if assign is not None else None
        self.n_deq = 0
        self.steps = 0
        self.max_steps = max_steps
        self.hang = False
        # sched_seed None: strict round-robin; otherwise the next runnable process is drawn
        # pseudo-randomly (reproducibly), which varies start-up order, monitor timing, filler progress
        import random as _random
        self.rnd = _random.Random(sched_seed) if sched_seed is not None else None
        self.tls = threading.local()
        self.unsupported = None    # set when a process failed because of the stand-in's incompleteness
        self.kill_merger = 0       # k > 0: the k-th merge process is killed before it runs (exit code -9)
        self.n_mergers = 0
        self.log = []              # (kind, who, what)
        main = _T("main", None)
        main.started = True
        self.threads.append(main)
        self.tls.me = main
        self.turn = main

    # ---- baton ----
    def me(self):
        return self.tls.me

    def yield_point(self, ready=None):
        """Give the baton away; come back when chosen and `ready()` holds."""
        me = self.me()
        with self.cv:
            me.ready = ready
            self._pick_next(me)
            while self.turn is not me:
                self.cv.wait()
            me.ready = None
            if self.hang and me.name == "main":
                raise Hang("no process can make progress: " + self.describe())

    def _pick_next(self, cur):
        self.steps += 1
        n = len(self.threads)
        start = self.threads.index(cur)
        if self.steps > self.max_steps:
            self.hang = True
        if not self.hang:
            order = [self.threads[(start + d) % n] for d in range(1, n + 1)]
            cands = [t for t in order if t.runnable()]
            if cands:
                t = cands[0] if self.rnd is None else self.rnd.choice(cands)
                self.turn = t
                self.cv.notify_all()
                return
        # nobody can run: wake main with the hang flag
        self.hang = True
        self.turn = self.threads[0]
        self.threads[0].ready = None
        self.cv.notify_all()

    def describe(self):
        return "; ".join("%s:%s" % (t.name, t.state()) for t in self.threads)


class _T:
    def __init__(self, name, proc):
        self.name = name
        self.proc = proc
        self.ready = None
        self.started = False
        self.finished = False
        self.killed = False
        self.why = ""

    def runnable(self):
        if not self.started or self.finished or self.killed:
            return False
        if self.ready is None:
            return True
        return bool(self.ready())

    def state(self):
        if self.killed:
            return "killed"
        if self.finished:
            return "finished"
        if not self.started:
            return "unstarted"
        return "blocked(%s)" % self.why if self.ready is not None and not self.ready() else "runnable"


class FakeProcess:
    def __init__(self, sched, target, args=(), kwargs=None):
        self.sched = sched
        self.target = target
        self.args = args
        self.kwargs = kwargs or {}
        self._exitcode = None
        name = getattr(target, "__name__", "proc")
        if name == "_worker":
            name = "worker%d" % args[0]
        self.t = _T(name + "#%d" % len(sched.threads), self)
        self.worker_id = args[0] if getattr(target, "__name__", "") == "_worker" else None
        self.thread = None

    def start(self):
        s = self.sched
        if getattr(self.target, "__name__", "") == "_merge_worker":
            s.n_mergers += 1
            if s.n_mergers == s.kill_merger:
                with s.cv:
                    s.threads.append(self.t)
                    self.t.started = True
                    self.t.killed = True          # killed by the system before doing anything
                s.log.append(("merger_killed", self.t.name, s.n_mergers))
                return
        self.thread = threading.Thread(target=self._run, daemon=True)
        with s.cv:
            s.threads.append(self.t)
            self.t.started = True
        self.thread.start()
        s.yield_point()

    def _run(self):
        s = self.sched
        s.tls.me = self.t
        with s.cv:
            while s.turn is not self.t:
                s.cv.wait()
        try:
            self.target(*self.args, **self.kwargs)
            self._exitcode = 0
        except BaseException as exc:      # an uncaught exception ends a real process with code 1
            self._exitcode = int(getattr(exc, "code", 1)) if isinstance(exc, WorkerDeath) else 1
            s.log.append(("died", self.t.name, repr(exc)[:120]))
            if _standin_fault(exc):
                s.unsupported = "%s: %r" % (self.t.name, exc)
        finally:
            with s.cv:
                self.t.finished = True
                if not self.t.killed:
                    s._pick_next(self.t)

    @property
    def exitcode(self):
        if self.t.killed:
            return -9
        return self._exitcode

    @property
    def sentinel(self):
        return _Sentinel(self)

    @property
    def pid(self):
        return 100000 + self.sched.threads.index(self.t) if self.t in self.sched.threads else None

    @property
    def name(self):
        return self.t.name

    daemon = False

    def terminate(self):
        self.kill()

    def close(self):
        return None

    def kill(self):
        with self.sched.cv:
            if not self.t.finished and self._exitcode is None:
                self.t.killed = True

    def join(self, timeout=None):
        self.t_join = True
        me = self.sched.me()
        me.why = "join " + self.t.name
        self.sched.yield_point(lambda: self.t.finished or self.t.killed)

    def is_alive(self):
        return not (self.t.finished or self.t.killed)


class FakeQueue:
    def __init__(self, sched, maxsize=0, is_items=False):
        self.sched = sched
        self.maxsize = maxsize
        self.items = []
        self.closed = False
        self.is_items = is_items

    def put(self, x, *a, **k):
        if self.closed:
            raise ValueError("Queue %s is closed" % ("<items>" if self.is_items else "<log>"))
        s = self.sched
        s.me().why = "put"
        s.yield_point(lambda: self.closed or self.maxsize <= 0 or len(self.items) < self.maxsize)
        if self.closed:
            raise ValueError("Queue %s is closed" % ("<items>" if self.is_items else "<log>"))
        self.items.append(x)

    def _granted(self, t):
        if not self.items:
            return False
        if not self.is_items or self.sched.assign is None:
            return True
        wid = t.proc.worker_id if t.proc is not None else None
        if self.sched.n_deq >= len(self.sched.assign):
            return True
        return self.sched.assign[self.sched.n_deq] == wid

    def get(self, *a, **k):
        s = self.sched
        me = s.me()
        me.why = "get"
        s.yield_point(lambda: self._granted(me))
        x = self.items.pop(0)
        if self.is_items:
            s.n_deq += 1
            s.log.append(("deq", me.proc.worker_id if me.proc else None,
                          x.get("id") if isinstance(x, dict) else (x + 1 if isinstance(x, int) and not isinstance(x, bool) else None)))
        return x

    def close(self):
        self.closed = True

    def empty(self):
        return not self.items

    def qsize(self):
        return len(self.items)

    def full(self):
        return self.maxsize > 0 and len(self.items) >= self.maxsize

    def put_nowait(self, x):
        return self.put(x)

    def join_thread(self):
        return None

    def cancel_join_thread(self):
        return None


class FakeContext:
    def __init__(self, sched):
        self.sched = sched
        self.n_queues = 0

    def Queue(self, maxsize=0):
        self.n_queues += 1
        # the first queue parallel_add creates is the bounded item queue
        return FakeQueue(self.sched, maxsize, is_items=(self.n_queues == 1))

    def Process(self, target=None, args=(), kwargs=None, **_):
        return FakeProcess(self.sched, target, args, kwargs)


def _fake_wait(sched):
    def wait(object_list, timeout=None):
        """multiprocessing.connection.wait on process sentinels: one scheduling round, then the
        sentinels of the processes that have ended."""
        objs = list(object_list)
        for o in objs:
            if not isinstance(o, _Sentinel):
                raise StandInUnsupported("wait() on %r" % (o,))
        sched.yield_point()
        return [o for o in objs if not o.proc.is_alive()]
    return wait


class _Patched:
    """helpers.get_context / helpers.sleep / helpers.wait replaced for the duration of one run
    (only the names the module actually has)."""

    def __init__(self, sched):
        helpers = impl.helpers
        if not hasattr(helpers, "get_context"):
            raise StandInUnsupported("sketchnu.helpers has no name get_context to replace")
        self.helpers = helpers
        self.ctx = FakeContext(sched)
        self.new = {"get_context": lambda _method=None: self.ctx, "sleep": lambda _s=0: sched.yield_point(),
                    "wait": _fake_wait(sched)}
        self.old = {}

    def __enter__(self):
        for name, val in self.new.items():
            if hasattr(self.helpers, name):
                self.old[name] = getattr(self.helpers, name)
                setattr(self.helpers, name, val)
        return self

    def __exit__(self, *exc):
        for name, val in self.old.items():
            setattr(self.helpers, name, val)
        return False


def _run(sched, call):
    with _Patched(sched):
        try:
            res = call()
            outcome = "returned", res, sched
        except Hang as exc:
            outcome = "hang", exc, sched
        except StandInUnsupported:
            raise
        except Exception as exc:
            if _standin_fault(exc):
                raise StandInUnsupported(repr(exc)) from exc
            outcome = "raised", exc, sched
    if sched.unsupported:
        raise StandInUnsupported(sched.unsupported)
    return outcome


def run_parallel_add(items, callback, n_workers, cms_args=None, hh_args=None, hll_args=None, assign=None,
                     sched_seed=None, kill_merger=0, **kwargs):
    """Run the real helpers.parallel_add under the deterministic scheduler.
    Returns (outcome, value, sched): outcome in {"returned", "raised", "hang"}."""
    sched = Sched(assign, sched_seed=sched_seed)
    sched.kill_merger = kill_merger
    return _run(sched, lambda: impl.helpers.parallel_add(items, callback, n_workers, cms_args, hh_args, hll_args, **kwargs))


def current_worker(sched):
    t = sched.me()
    return t.proc.worker_id if t.proc is not None else None


def run_under_scheduler(fn, sched_seed=None):
    """Run fn(log_queue) with helpers.get_context / helpers.sleep replaced (used for direct calls of
    helpers.parallel_merging)."""
    sched = Sched(None, sched_seed=sched_seed)
    return _run(sched, lambda: fn(FakeQueue(sched)))
