"""Traces of the repository's OWN test suite, validated against the trace specifications
(code -> spec): pytest runs the selected tests of the tree under test with the recording plugin
harness/suite_rec.py; every recorded test becomes one trace of Trace_CountMinLinear.  The tests'
own assertions are irrelevant here -- each recorded call must be a step of CountMinLinear.tla and
every design invariant is evaluated on it with the ghost truth (the quadratic ones at every 64th
step)."""
import glob
import json
import os
import shutil
import subprocess
import tempfile

import common
from common import REPO, MachineryError, workdir
import cm_linear as L

HERE = os.path.dirname(os.path.abspath(__file__))
INVS = ["Lower", "UpperSparse", "UpperCellSparse", "Exact", "NAdded", "CellsBelowCap"]     # C01 on every recorded step
CHEAP = ["Lower", "NAdded", "CellsBelowCap"]
SPARSE = ["LowerSparse", "UpperSparse", "UpperCellSparse", "ExactSparse", "NAddedSparse", "CellsBelowCapSparse"]
QUICK_K = "empty_linear or update_linear_dict or update_ngram_linear"
# (test_merge_linear: 100 000 calls on a 200x8 table, about 25 minutes of one TLC worker -- left out)
FULL_K = "linear and not merge_linear"


def record(kexpr):
    out = tempfile.mkdtemp(prefix="suite_rec_", dir=workdir())
    env = dict(os.environ, PYTHONPATH=REPO + os.pathsep + HERE, SUITE_REC_OUT=out, PYTHONDONTWRITEBYTECODE="1")
    env.pop("SKETCHNU_VERIF", None)
    p = subprocess.run(["/venv/bin/python", "-W", "ignore", "-m", "pytest", "-q", "-p", "no:cacheprovider", "-p", "suite_rec",
                        "--timeout=900", "tests/test_countmin.py", "-k", kexpr],
                       cwd=REPO, env=env, stdout=subprocess.PIPE, stderr=subprocess.STDOUT, text=True, timeout=2400)
    traces = []
    for f in sorted(glob.glob(os.path.join(out, "*.json"))):
        traces.append(json.load(open(f)))
    shutil.rmtree(out, ignore_errors=True)
    last = (p.stdout.strip().splitlines() or ["(no output)"])[-1]
    if not traces:
        raise MachineryError("the recording plugin produced no trace: %s" % p.stdout[-800:])
    return traces, last


def validate(report, quick, tag="suite"):
    try:
        traces, pytest_line = record(QUICK_K if quick else FULL_K)
    except (MachineryError, subprocess.SubprocessError, OSError) as exc:
        # the tree under test may ship no (or other) tests: this stage then has nothing to validate, which
        # says nothing about the property
        report.assumptions.append("no trace could be recorded from the repository's own tests (%s): stage skipped" % str(exc)[:200])
        return True
    used, names = [], []
    for t in traces:
        name, why = t.pop("test"), t.pop("unsupported")
        if why:
            report.sample({"suite_trace_skipped": name, "why": why}, limit=20)
            continue
        names.append({"test": name, "events": len(t["events"]), "sketches": t["NS"], "shape": [t["W"], t["D"]]})
        used.append(t)
    report.sample({"repo_test_traces": names, "pytest": pytest_line}, limit=50)
    report.cov.setdefault("notes", []).append("%d traces recorded from the repository's own tests (%d calls)" % (
        len(used), sum(len(t["events"]) for t in used)))
    # the n-gram test keeps 17 sketches of 1600 cells and 136 keys alive: the quadratic invariants
    # (cell loads summed over all keys, for every cell of every slot) are left to the small traces
    small = [t for t in used if t["NS"] * t["W"] * t["D"] * len(t["keys"]) <= 60000]
    large = [t for t in used if t["NS"] * t["W"] * t["D"] * len(t["keys"]) > 60000]
    ok = True
    # traces of tens of thousands of calls: every invariant at every 64th step and at the end
    # (the recorded state of every call is still compared)
    long_ = [t for t in small if len(t["events"]) > 3000]
    small = [t for t in small if len(t["events"]) <= 3000]
    if small:
        ok = L.validate(report, small, INVS, [], tag=tag) and ok
    if long_ and ok:
        ok = L.validate(report, long_, SPARSE, [], tag=tag + "S", timeout=4000) and ok      # 100 000 calls on a 200x8 table: one TLC worker, about 25 min
    if large and ok:
        ok = L.validate(report, large, CHEAP, [], tag=tag + "L") and ok
    return ok
