"""HyperLogLog: model checking, trace validation (placement computed by Hashes.tla) and
edge replay with keys constructed to have prescribed hashes."""
import json
import os
import random

import numpy as np

import common
from common import run_tlc, workdir, MachineryError, write_cfg
import impl
from impl import kb

MODULE_MC = "MC_HyperLogLog"
MODULE_TR = "Trace_HyperLogLog"

MC_CONSTS = """SPECIFICATION Spec
CONSTANTS
  MSlots = {Slots}
  MaxKeys = {MaxKeys}
  PlaceIdx = {PlaceIdx}
  Slots <- MSlotSet
  PlaceChoices <- MPlaceChoices
  AddKeys <- MKeys
  Lists <- {Lists}
  NgramArgs <- {Ngrams}
VIEW view
CONSTRAINT Bound
CHECK_DEADLOCK FALSE
"""
TR_CONSTS = """SPECIFICATION TSpec
CONSTANTS
  Slots <- TSlots
  PlaceChoices = {}
  AddKeys = {}
  Lists = {}
  NgramArgs = {}
CHECK_DEADLOCK TRUE
INVARIANT TraceOK
"""
INVS = ["UnionSemantics", "MergeLaws", "RanksPositive"]


def model_check(report, invs, Slots=2, MaxKeys=4, tag="hll"):
    cfg = write_cfg("mc_%s.cfg" % tag, MC_CONSTS.format(Slots=Slots, MaxKeys=MaxKeys, Lists="MLists",
                                                        Ngrams="MNgramArgs", PlaceIdx="{}"), invs, [])
    r = run_tlc(MODULE_MC, cfg, tag=tag)
    inst = "HyperLogLog 4 keys x all placements in {0,1}x{1,2,max}, %d slots, <=%d keys per slot" % (Slots, MaxKeys)
    report.add_tlc(MODULE_MC, r, inst)
    if not r.ok:
        report.violation("model: %s %s violated on %s" % (r.kind, r.violated, inst),
                         {"kind": "model", "module": MODULE_MC, "violated": r.violated,
                          "last_state": r.last_state, "signature": {"model": r.violated}})
    return r


# ------------------------------------------------------- reference hash (harness side)
M64 = (1 << 64) - 1
FH_M = 0x880355F21E6D1965
FH_C = 0x2127599BF4325C37
FH_M_INV = pow(FH_M, -1, 1 << 64)
FH_C_INV = pow(FH_C, -1, 1 << 64)


def _mix(h):
    h ^= h >> 23
    h = (h * FH_C) & M64
    h ^= h >> 47
    return h


def _unmix(h):
    h ^= h >> 47
    h = (h * FH_C_INV) & M64
    h = h ^ (h >> 23) ^ (h >> 46)
    return h


def key_with_hash(target, seed):
    """The unique 8-byte key whose FastHash64 with `seed` is `target` (mix and the odd
    multiplications are bijections of 64-bit words).  The result is not trusted: TLC
    recomputes every placement with Hashes.tla."""
    h2 = _unmix(target)
    h1 = (h2 * FH_M_INV) & M64
    mv = h1 ^ (seed ^ ((8 * FH_M) & M64))
    return _unmix(mv).to_bytes(8, "little")


def key_for(idx, rank, p, seed, rng):
    width = 64 - p
    if rank == width + 1:
        bits = 0
    else:
        bits = (1 << (width - rank)) | rng.randrange(1 << (width - rank))
    return key_with_hash((bits << p) | idx, seed)


# ------------------------------------------------------------------------- traces

def proj_hll(sk):
    nz = np.flatnonzero(sk.registers)
    return [[int(i), int(sk.registers[i])] for i in nz]


class HllRecorder:
    def __init__(self, p, seed, NS):
        self.p, self.seed, self.NS = p, seed, NS
        self.slots = [impl.hyperloglog.HyperLogLog(p, seed) for _ in range(NS)]
        self.events = []

    def emit(self, ev):
        ev["post"] = [proj_hll(s) for s in self.slots]
        self.events.append(ev)

    def add(self, s, k, v=None):
        if v is None:
            self.slots[s].add(k)
        else:
            self.slots[s].add(k, v)
        self.emit({"ev": "add", "s": s + 1, "k": kb(k)})

    def update_list(self, s, ks):
        self.slots[s].update(list(ks))
        self.emit({"ev": "update_list", "s": s + 1, "ks": [kb(k) for k in ks]})

    def update_dict(self, s, kvs):
        d = dict(kvs)
        self.slots[s].update(d)
        self.emit({"ev": "update_dict", "s": s + 1, "ks": [kb(k) for k in d]})

    def add_ngram(self, s, key, n):
        self.slots[s].add_ngram(key, n)
        self.emit({"ev": "add_ngram", "s": s + 1, "key": kb(key), "n": n})

    def update_ngram(self, s, keys, n):
        self.slots[s].update_ngram(list(keys), n)
        self.emit({"ev": "update_ngram", "s": s + 1, "keys": [kb(k) for k in keys], "n": n})

    def merge(self, s, t):
        try:
            self.slots[s].merge(self.slots[t])
        except TypeError as exc:
            if impl.STRICT_PERSIST:
                self.emit({"ev": "merge_refused", "s": s + 1, "t": t + 1, "exc": repr(exc)[:200]})
            return
        self.emit({"ev": "merge", "s": s + 1, "t": t + 1})

    def saveload(self, s, t, shm=False):
        p = impl.tmpfile()
        try:
            self.slots[s].save(p)
            new = impl.hyperloglog.HyperLogLog.load(p, shared_memory=shm)
        except Exception as exc:
            if impl.STRICT_PERSIST:
                self.emit({"ev": "saveload_failed", "s": s + 1, "t": t + 1, "exc": repr(exc)[:200]})
            return
        finally:
            if os.path.exists(p):
                os.unlink(p)
        self.slots[t] = new
        self.emit({"ev": "saveload", "s": s + 1, "t": t + 1})

    def query(self, s):
        out = self.slots[s].query()
        # C02: "identical to that of a fresh sketch": a fresh object given the same registers
        fresh = impl.hyperloglog.HyperLogLog(self.p, self.seed)
        fresh.registers[:] = self.slots[s].registers
        self.emit({"ev": "query", "s": s + 1, "out": float(out).hex(), "fresh": float(fresh.query()).hex()})

    def trace(self):
        return {"p": self.p, "seed": list(int(self.seed).to_bytes(8, "little")), "NS": self.NS,
                "events": self.events}


SEEDS = [0, 0, 1, 2**32, 2**63, 2**64 - 1, 12345]


def random_history(rng, n_events=None):
    p = rng.choice([7, 7, 8, 9, 10, 11, 12, 13, 14, 15, 16])
    seed = rng.choice(SEEDS + [rng.randrange(2**64)])
    NS = rng.choice([1, 2, 3, 4, 5])
    rec = HllRecorder(p, seed, NS)
    pool = impl.special_keys(rng)
    # keys constructed to reach chosen registers and every rank, incl. the maximum 64-p+1
    for _ in range(6):
        r = rng.choice([1, 2, 3, 64 - p - 1, 64 - p, 64 - p + 1, rng.randint(1, 64 - p + 1)])
        pool.append(key_for(rng.choice([0, 1, (1 << p) - 1, rng.randrange(1 << p)]), r, p, seed, rng))
    if seed == 0:
        pool.append(b"")            # hash 0: rank 64-p+1 in register 0
    keys = rng.sample(pool, rng.randint(3, min(10, len(pool))))
    n = n_events or rng.randint(8, 24)
    for _ in range(n):
        s, t = rng.randrange(NS), rng.randrange(NS)
        k = rng.choice(keys)
        x = rng.random()
        if x < 0.30:
            rec.add(s, k, rng.choice([None, None, 1, 5, 2**40]))
        elif x < 0.42:
            rec.update_list(s, [rng.choice(keys) for _ in range(rng.randint(0, 6))])
        elif x < 0.50:
            rec.update_dict(s, [(rng.choice(keys), rng.choice([1, 7])) for _ in range(rng.randint(0, 4))])
        elif x < 0.60:
            key = rng.choice(keys + [b"abcabc", b"aaaa"])[:12]
            rec.add_ngram(s, key, rng.choice([1, 2, 3, max(1, len(key) - 1), max(1, len(key)), len(key) + 1]))
        elif x < 0.66:
            rec.update_ngram(s, [rng.choice(keys)[:8] for _ in range(rng.randint(0, 3))], rng.choice([1, 2, 4]))
        elif x < 0.82:
            rec.merge(s, t)
        elif x < 0.88 and s != t:
            rec.saveload(s, t, shm=rng.random() < 0.3)
        else:
            rec.query(s)
    for s in range(NS):
        rec.query(s)
    return rec.trace()


def partition_history(rng):
    """C02's corollaries made explicit: the same key multiset fed (a) in one order to one
    sketch, (b) shuffled with duplicates, (c) partitioned over several sketches and merged in
    a random tree -- all end in the same registers and the same query()."""
    p = rng.choice([7, 8, 10, 12, 16])
    seed = rng.choice(SEEDS)
    NS = 5
    rec = HllRecorder(p, seed, NS)
    keys = [bytes(rng.randrange(256) for _ in range(rng.randint(0, 20))) for _ in range(rng.randint(3, 12))]
    for k in keys:
        rec.add(0, k)
    sh = keys * 2
    rng.shuffle(sh)
    rec.update_list(1, sh)
    for k in keys:
        rec.add(2 + rng.randrange(3), k, rng.choice([1, 9]))
    order = [2, 3, 4]
    rng.shuffle(order)
    rec.merge(order[0], order[1])
    rec.merge(order[2], order[0]) if rng.random() < 0.5 else rec.merge(order[0], order[2])
    for s in range(NS):
        rec.query(s)
    return rec.trace()


def validate(report, traces, invs, tag="hlltr"):
    return common.validate_traces(report, MODULE_TR, TR_CONSTS, traces, invs, [], tag, "hll")


# ------------------------------------------------------------- spec -> code replay

def export_edges(report, Slots, MaxKeys, tag, place_idx=()):
    base = MC_CONSTS.format(Slots=Slots, MaxKeys=MaxKeys, Lists="MLists", Ngrams="MNone",
                            PlaceIdx="{" + ", ".join(str(i) for i in place_idx) + "}")
    cfg = write_cfg("edges_%s.cfg" % tag, base, [], [], "ACTION_CONSTRAINT LogEdge\n")
    r = run_tlc(MODULE_MC, cfg, workers=1, tag=tag)
    if not r.ok:
        raise MachineryError("edge export run failed: %s" % r.violated)
    edges = [json.loads(common.tla_string_payloads(p)[1]) for p in r.prints if p.startswith('<<"EDGE"')]
    if len(edges) < r.distinct - 700 and len(edges) < r.distinct * 0.9:
        raise MachineryError("exported %d edges but TLC found %d distinct states" % (len(edges), r.distinct))
    report.add_tlc(MODULE_MC + "(edge export)", r, "slots=%d keys per slot<=%d, all placements" % (Slots, MaxKeys))
    return edges


def replay_edges(report, edges, combos, rng, max_places=None):
    """combos: list of (p, seed).  Each model placement is realised by 8-byte keys constructed
    to hit the model's (index, rank) -- rank 9 stands for the maximum 64-p+1."""
    by_place = {}
    for e in edges:
        by_place.setdefault(json.dumps(e["e"], sort_keys=True), []).append(e)
    places = list(by_place)
    if max_places and len(places) > max_places:
        places = rng.sample(places, max_places)
    n_done = 0
    for (p, seed) in combos:
        ridx = {0: rng.choice([0, rng.randrange(1 << p)]), 1: (1 << p) - 1}
        if ridx[0] == ridx[1]:
            ridx[0] = 0
        rrank = {1: 1, 2: 2, 9: 64 - p + 1}
        for pj in places:
            es = by_place[pj]
            place = json.loads(pj)
            real = {tuple(k): key_for(ridx[pl[0]], rrank[pl[1]], p, seed, rng) for k, pl in place}

            def exp_state(t):
                return [sorted([ridx[i], rrank[r]] for i, r in regs) for regs in t]
            out = {}
            for e in es:
                out.setdefault(json.dumps(e["f"], sort_keys=True), []).append(e)
            init = [e for e in es if all(r == [] for r in e["f"])]
            NS = len(init[0]["f"])
            start = json.dumps(init[0]["f"], sort_keys=True)
            snaps = {start: [np.zeros(1 << p, np.uint8) for _ in range(NS)]}
            queue = [start]
            objs = [impl.hyperloglog.HyperLogLog(p, seed) for _ in range(NS)]
            while queue:
                node = queue.pop()
                for e in out.get(node, []):
                    for o_, sn in zip(objs, snaps[node]):
                        o_.registers[:] = sn
                    o = e["o"]
                    name = o["name"]
                    s = objs[o["s"] - 1]
                    cur = list(objs)
                    if name == "add":
                        s.add(real[tuple(o["k"])], o["v"])
                    elif name == "update_list":
                        s.update([real[tuple(k)] for k in o["ks"]])
                    elif name == "merge":
                        s.merge(objs[o["t"] - 1])
                    elif name == "saveload":
                        pth = impl.tmpfile()
                        s.save(pth)
                        cur[o["t"] - 1] = impl.hyperloglog.HyperLogLog.load(pth)
                        os.unlink(pth)
                    else:
                        raise MachineryError("unknown op %s" % name)
                    got = [sorted(proj_hll(x)) for x in cur]
                    exp = exp_state(e["t"])
                    n_done += 1
                    report.count_action("replay:" + name)
                    if got != exp:
                        report.violation(
                            "edge replay (p=%d seed=%d): after %s registers %s, specification %s" %
                            (p, seed, json.dumps(o), got, exp),
                            {"kind": "edge", "p": p, "seed": seed, "edge": e, "got": got, "expected": exp,
                             "signature": {"edge_op": name}})
                        return False
                    tn = json.dumps(e["t"], sort_keys=True)
                    if tn not in snaps:
                        snaps[tn] = [x.registers.copy() for x in cur]
                        queue.append(tn)
        report.sample({"replay_p": p, "seed": seed, "placements": len(places)}, limit=3)
    report.cov["edges_replayed"] = report.cov.get("edges_replayed", 0) + n_done
    report.cov["traces_validated_against_impl"] += n_done
    return True


def rerun(trace):
    """Re-execute a recorded trace's operations against the current tree (for --replay)."""
    rec = HllRecorder(trace["p"], int.from_bytes(bytes(trace["seed"]), "little"), trace["NS"])
    for e in trace["events"]:
        s = e.get("s", 1) - 1
        ev = e["ev"]
        if ev == "add":
            rec.add(s, bytes(e["k"]))
        elif ev in ("update_list",):
            rec.update_list(s, [bytes(k) for k in e["ks"]])
        elif ev == "update_dict":
            rec.update_dict(s, [(bytes(k), 1) for k in e["ks"]])
        elif ev == "add_ngram":
            rec.add_ngram(s, bytes(e["key"]), e["n"])
        elif ev == "update_ngram":
            rec.update_ngram(s, [bytes(k) for k in e["keys"]], e["n"])
        elif ev == "merge":
            rec.merge(s, e["t"] - 1)
        elif ev == "saveload":
            rec.saveload(s, e["t"] - 1)
        elif ev == "query":
            rec.query(s)
    return rec.trace()
