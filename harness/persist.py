"""C10 / C20: real save()/load() executions validated against spec/Persist*.tla."""
import hashlib
import json
import os
import struct

import numpy as np

import common
from common import run_tlc, workdir, MachineryError
import impl
import compat

MC_CFG = """SPECIFICATION Spec
CONSTANTS
  MemberLens <- {M}
  CdLen = 2
  EocdLen = 3
INVARIANT CommitLast
INVARIANT ReaderSound
INVARIANT Order
CHECK_DEADLOCK FALSE
"""


def model_check(report):
    for m in ("M2", "M3", "M5"):
        cfg = common.write_cfg("mc_persist_%s.cfg" % m, MC_CFG.replace("{M}", m), [], [])
        r = run_tlc("MC_Persist", cfg, workers=1, tag="persist" + m)
        report.add_tlc("MC_Persist %s (writer byte by byte, crash after any byte)" % m, r)
        if not r.ok:
            report.violation("model: %s %s violated" % (r.kind, r.violated),
                             {"kind": "model", "signature": {"model": r.violated}})


# --------------------------------------------------------------------- sketch zoo

LOADERS = {
    "linear": lambda p, shm=False: impl.countmin.CountMinLinear.load(p, shm),
    "log16": lambda p, shm=False: impl.countmin.CountMinLog16.load(p, shm),
    "log8": lambda p, shm=False: impl.countmin.CountMinLog8.load(p, shm),
    "countmin.load": lambda p, shm=False: impl.countmin.load(p, shm),
    "hll": lambda p, shm=False: impl.hyperloglog.HyperLogLog.load(p, shm),
    "hh": lambda p, shm=False: impl.heavyhitters.HeavyHitters.load(p, shm),
}


def cls_of(sk):
    t = type(sk)
    if t is impl.countmin.CountMinLinear:
        return "linear"
    if t is impl.countmin.CountMinLog16:
        return "log16"
    if t is impl.countmin.CountMinLog8:
        return "log8"
    if t is impl.hyperloglog.HyperLogLog:
        return "hll"
    if t is impl.heavyhitters.HeavyHitters:
        return "hh"
    return t.__name__


def params_of(sk):
    names = ("width", "depth", "max_count", "num_reserved", "base", "p", "seed", "phi", "max_key_len")
    out = {}
    for n in names:
        if hasattr(sk, n):
            v = getattr(sk, n)
            out[n] = float(v).hex() if n in ("base", "phi") else str(int(v))
    return json.dumps(out, sort_keys=True)


def observers(sk, keys):
    """Every query the class offers, as text."""
    c = cls_of(sk)
    out = []
    if c in ("linear", "log16", "log8"):
        out += [repr(float(sk.query(k))) for k in keys] + [repr(float(sk[k])) for k in keys[:2]]
        out += [str(int(sk.n_added())), str(int(sk.n_records()))]
    elif c == "hll":
        out += [float(sk.query()).hex()]
    else:
        L = int(sk.max_key_len)
        out += [str(int(sk[k[:L]])) for k in keys] + [str(int(sk.n_added())), str(int(sk.n_records()))]
        nadd = int(sk.n_added())
        if float(sk.phi) * nadd < 2**31:
            out.append(repr(sorted(sk.query(10**6))))
        out.append(repr(sorted(sk.query(10**6, 0))))
        out.append(repr([c_ for _k, c_ in sk.query(3, 1)]))
    return hashlib.sha256("|".join(out).encode()).hexdigest()[:24]


def random_sketch(rng, kind=None, small=False):
    kind = kind or rng.choice(["linear", "log16", "log8", "hll", "hh"])
    keys = impl.special_keys(rng)[:14]
    if small:
        sk = {"linear": lambda: impl.countmin.CountMinLinear(3, 2), "log16": lambda: impl.countmin.CountMinLog16(3, 2),
              "log8": lambda: impl.countmin.CountMinLog8(5, 2), "hll": lambda: impl.hyperloglog.HyperLogLog(7, 5),
              "hh": lambda: impl.heavyhitters.HeavyHitters(2, 2, 3)}[kind]()
        for k in keys[:6]:
            sk.add(k, 2)
        return sk, keys
    if kind == "linear":
        sk = impl.countmin.CountMinLinear(rng.choice([1, 2, 7, 33]), rng.choice([1, 2, 8]))
    elif kind in ("log16", "log8"):
        um = 65535 if kind == "log16" else 255
        mc, nr = rng.choice([(2**32 - 1, None), (10**6, 5), (2**40, 0), (70000, 3), (2**53, 100)])
        cls = impl.CM_CLASSES[kind]
        W, D = rng.choice([1, 2, 7, 33]), rng.choice([1, 2, 8])
        try:
            sk = cls(W, D, mc) if nr is None else cls(W, D, mc, nr)
        except ValueError:
            sk = cls(W, D)        # a refused constructor is judged by C18
    elif kind == "hll":
        sk = impl.hyperloglog.HyperLogLog(rng.choice([7, 8, 12, 16]), rng.choice([0, 1, 2**63, 2**64 - 1, 2**63 + 12345]))
    else:
        sk = impl.heavyhitters.HeavyHitters(rng.choice([1, 2, 5, 16]), rng.choice([1, 2, 4]), rng.choice([1, 3, 16, 255]),
                                            rng.choice([None, None, 0.5, 0.001]))
    for _ in range(rng.randint(0, 25)):
        k = rng.choice(keys)
        x = rng.random()
        if x < 0.6:
            sk.add(k, rng.choice([1, 1, 2, 7, 100]))
        elif x < 0.8:
            sk.update([rng.choice(keys) for _ in range(3)])
        else:
            sk.add_ngram((k + b"abc")[:9], rng.choice([1, 2, 3]))
    if kind != "hll" and rng.random() < 0.5:
        sk.n_added_records[1] += np.uint64(rng.choice([1, 17]))
    return sk, keys


def corner_sketches(rng):
    """Configurations at the edges of every parameter range (always part of the round trips)."""
    cm, hl, hh = impl.countmin, impl.hyperloglog.HyperLogLog, impl.heavyhitters.HeavyHitters
    makers = [lambda: cm.CountMinLinear(1, 1), lambda: cm.CountMinLinear(1), lambda: cm.CountMinLog16(1, 1),
              lambda: cm.CountMinLog8(1, 1), lambda: cm.CountMinLog16(2, 1, 70000, 0), lambda: cm.CountMinLog8(3, 2, 2**63, 253),
              lambda: cm.CountMinLog16(2, 2, 2**63, 65533), lambda: hl(7, 2**64 - 1), lambda: hl(16, 0), lambda: hl(7, 2**63),
              lambda: hl(9, 2**63 + 12345), lambda: hl(8, 2**64 - 4097),
              lambda: hh(1), lambda: hh(1, 1, 1), lambda: hh(1, 4, 16), lambda: hh(2, 1, 255), lambda: hh(3, 2, 4, 0.999),
              lambda: hh(3, 2, 4, 1e-9),
              # phi next to, but not equal to, the default 1/width (what a user types for the reciprocal)
              lambda: hh(7, 2, 4, 0.142857), lambda: hh(3, 1, 4, 0.3333333), lambda: hh(4, 2, 4, 0.25 * (1 + 2.0 ** -40)),
              lambda: hh(10, 1, 8, 0.1 + 2.0 ** -50), lambda: hh(8, 2, 4, float(np.nextafter(0.125, 1.0)))]
    zoo = []
    for mk in makers:
        try:
            zoo.append(mk())
        except ValueError:
            pass                  # a refused constructor is judged by C18
    keys = impl.special_keys(rng)[:10]
    for i, sk in enumerate(zoo):
        for j, k in enumerate(keys[: (i % 4) * 3]):
            sk.add(k, j + 1)
    return [(sk, keys) for sk in zoo]


def roundtrips(rng, n):
    """save -> load through every loader that could be asked to read the file."""
    trips = []
    todo = corner_sketches(rng) + [random_sketch(rng, ["linear", "log16", "log8", "hll", "hh"][i % 5]) for i in range(n)]
    for i, (sk, keys) in enumerate(todo):
        kind = cls_of(sk)
        path = impl.tmpfile()
        if i % 3 == 0:
            # the target path already holds a (longer) sketch file: save() replaces it
            big, _k = random_sketch(rng, kind)
            with open(path, "wb") as f:
                f.write(b"\x00" * 70000)
            try:
                big.save(path)
            except Exception:
                pass
        import pathlib
        if i % 4 == 1:
            sk.save(pathlib.Path(path))            # str | Path
        elif i % 4 == 2:
            sk.save(path[:-4])                      # without the extension: .npz is appended
        else:
            sk.save(path)
        if kind in ("linear", "log16", "log8"):
            loaders = ["linear", "log16", "log8", "countmin.load"]
        else:
            loaders = [kind]
        for ld in loaders:
            shm = rng.random() < 0.3
            t = {"cls": kind, "loader": ld, "shm": shm, "params_before": params_of(sk),
                 "state_before": compat.digest(sk), "obs_before": observers(sk, keys)}
            try:
                new = LOADERS[ld](path, shm)
            except TypeError:
                t.update(outcome="TypeError", cls_after="", params_after="", state_after="", obs_after="",
                         merge_ab="", merge_ba="")
                trips.append(t)
                continue
            except Exception as exc:
                t.update(outcome=type(exc).__name__ + ": " + str(exc)[:80], cls_after="", params_after="",
                         state_after="", obs_after="", merge_ab="", merge_ba="")
                trips.append(t)
                continue
            t.update(outcome="ok", cls_after=cls_of(new), params_after=params_of(new),
                     state_after=compat.digest(new), obs_after=observers(new, keys))
            # merges with the original in both directions must not raise (on copies of the state)
            for name, (a, b) in (("merge_ab", (sk, new)), ("merge_ba", (new, sk))):
                try:
                    p2 = impl.tmpfile()
                    a.save(p2)
                    a2 = LOADERS[cls_of(a)](p2)
                    os.unlink(p2)
                    a2.merge(b)
                    t[name] = "ok"
                except Exception as exc:
                    t[name] = type(exc).__name__
            trips.append(t)
            del new
        os.unlink(path)
    return trips


# ------------------------------------------------------------------ container parsing

def parse_regions(b):
    """Split an .npz (zip, stored, zip64 extra) into the container regions of Persist.tla."""
    regions = []
    off = 0
    n_members = 0
    while b[off:off + 4] == b"PK\x03\x04":
        (_sig, _ver, _flag, comp, _mt, _md, _crc, cs, us, nl, el) = struct.unpack("<IHHHHHIIIHH", b[off:off + 30])
        if comp != 0:
            raise MachineryError("compressed member: the container model assumes stored data")
        ex = b[off + 30 + nl:off + 30 + nl + el]
        if cs == 0xFFFFFFFF:
            _hid, _sz, _us64, cs = struct.unpack("<HHQQ", ex[:20])
        regions += [["hdr", 30], ["name", nl + el], ["data", cs]]
        off += 30 + nl + el + cs
        n_members += 1
    for _ in range(n_members):
        if b[off:off + 4] != b"PK\x01\x02":
            raise MachineryError("central directory entry expected at %d" % off)
        nl, el, cl = struct.unpack("<HHH", b[off + 28:off + 34])
        ln = 46 + nl + el + cl
        regions.append(["cd", ln])
        off += ln
    if b[off:off + 4] != b"PK\x05\x06":
        raise MachineryError("EOCD expected at %d (zip64 EOCD records are outside the model)" % off)
    regions.append(["eocd", len(b) - off])
    return regions


def prefix_events(rng, kind, stride=1, overwrite=False, large=False):
    sk, keys = random_sketch(rng, kind, small=overwrite)
    if large:
        # tables of 64 KiB and more (size-dependent code paths of save(): buffering, preallocation)
        sk = {"linear": lambda: impl.countmin.CountMinLinear(2**14 + rng.choice([0, 3]), 1),
              "log16": lambda: impl.countmin.CountMinLog16(2**13, 5), "log8": lambda: impl.countmin.CountMinLog8(2**16 + 1, 1),
              "hll": lambda: impl.hyperloglog.HyperLogLog(16, 3),
              "hh": lambda: impl.heavyhitters.HeavyHitters(2**11, 1, 32)}[kind]()
        for k in keys[:8]:
            sk.add(k, 3)
    path = impl.tmpfile()
    if overwrite:
        # save() over an existing, longer sketch file of the same class: the file save() leaves
        # behind is what gets truncated
        make_bigger = {"linear": lambda: impl.countmin.CountMinLinear(40, 8),
                       "log16": lambda: impl.countmin.CountMinLog16(60, 8), "log8": lambda: impl.countmin.CountMinLog8(120, 8),
                       "hll": lambda: impl.hyperloglog.HyperLogLog(13), "hh": lambda: impl.heavyhitters.HeavyHitters(20, 4, 32)}
        prev = make_bigger[kind]()
        prev.add(b"previous", 3)
        prev.save(path)
    sk.save(path)
    data = open(path, "rb").read()
    os.unlink(path)
    try:
        regions = parse_regions(data)
    except MachineryError:
        # the file save() produced is not the container the model describes (e.g. stale bytes
        # after the end-of-central-directory record): one region, judged by the prefix sweep
        regions = [["hdr", 0], ["name", 0], ["data", len(data)], ["cd", 0], ["eocd", 0]]
    loaders = [kind] + (["countmin.load"] if kind in ("linear", "log16", "log8") else [])
    want_state, want_obs = compat.digest(sk), observers(sk, keys)
    events = []
    p2 = impl.tmpfile()
    if overwrite:
        stride = 1 if len(data) < 3000 else 5
    offsets = list(range(0, len(data), stride)) + [len(data)]
    if large:
        offsets = list(range(0, len(data), stride if stride > 1 else 1)) + list(range(max(0, len(data) - 1200), len(data) + 1)) + list(range(0, 200))
    # always include the boundaries of every region and their neighbours
    acc = 0
    for _k, ln in regions:
        acc += ln
        offsets += [acc - 1, acc, acc + 1]
    offsets = sorted({o for o in offsets if 0 <= o <= len(data)})
    for off in offsets:
        with open(p2, "wb") as f:
            f.write(data[:off])
        for ld in loaders:
            try:
                new = LOADERS[ld](p2)
            except Exception:
                events.append([off, ld, "exception"])
                continue
            same = (cls_of(new) == kind and compat.digest(new) == want_state and observers(new, keys) == want_obs)
            events.append([off, ld, "loaded_equal" if same else "loaded_different"])
            del new
    os.unlink(p2)
    # the layout a crashed "write to a temporary name, then rename" leaves behind: the truncated file sits
    # next to a complete one with the same stem and another suffix
    import shutil
    import tempfile
    d = tempfile.mkdtemp(dir=workdir())
    stem = os.path.join(d, "sketch")
    with open(stem + ".npz", "wb") as f:
        f.write(data)
    for suffix in (".part", ".tmp", ".npz.part"):
        for off in offsets[::41] + [len(data) - 1]:
            with open(stem + suffix, "wb") as f:
                f.write(data[:off])
            for ld in loaders:
                try:
                    new = LOADERS[ld](stem + suffix)
                except Exception:
                    events.append([off, ld, "exception"])
                    continue
                events.append([off, ld, "loaded_equal" if compat.digest(new) == want_state else "loaded_different"])
                del new
    shutil.rmtree(d, ignore_errors=True)
    return {"cls": kind, "regions": regions, "total": len(data), "events": events}


def validate(report, files, trips, tag):
    path = os.path.join(workdir(), "persist_%s.json" % tag)
    with open(path, "w") as f:
        json.dump({"files": files, "roundtrips": trips}, f)
    cfg = os.path.join(common.SPEC, "Trace_Persist.cfg")
    r = run_tlc("Trace_Persist", cfg, env={"TRACE_FILE": path}, workers=8, tag=tag)
    os.unlink(path)
    n = sum(len(f["events"]) for f in files) + len(trips)
    report.cov["states"] += r.distinct
    report.cov["transitions"] += r.generated
    report.cov["tlc_runs"].append({"name": "Trace_Persist", "files": len(files), "prefix_loads": n - len(trips),
                                   "roundtrips": len(trips), "distinct_states": r.distinct, "wall_s": round(r.wall, 1)})
    if r.ok:
        report.cov["traces_validated_against_impl"] += n
        report.cov["evaluations"] += n
        return True
    detail = ""
    for p in r.prints:
        if p.startswith('<<"MISMATCH"'):
            detail = common.tla_string_payloads(p)[-1]
    fi = r.last_state.get("fi", "?")
    sig = {"persist": "layout"}
    try:
        bad = json.loads(detail)["bad"]
        if isinstance(bad, list):
            f = files[int(fi) - 1]
            sig = {"persist": "prefix", "cls": f["cls"], "outcome": bad[2]}
        else:
            sig = {"persist": "roundtrip", "cls": bad["cls"], "loader": bad["loader"]}
    except Exception:
        bad = None
    report.violation("save/load rejected by Persist (%s %s; file %s): %s" % (r.kind, r.violated, fi, detail[:700]),
                     {"kind": "persist", "bad": bad, "signature": sig})
    return False
