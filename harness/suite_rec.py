"""pytest plugin (`-p suite_rec`, harness directory on PYTHONPATH): records the executions of the
repository's OWN tests as traces for the trace specifications.  Nothing in the repository is
edited: the public methods of CountMinLinear are wrapped from the test side when pytest starts;
each wrapper calls the original method and then logs one event (arguments + projected state of
every sketch of the test after the call), in exactly the format harness/cm_linear.py produces.

One trace per (test, width, depth).  A call with a long key list (the suite feeds 50 000 keys in
one update()) is logged as its unit steps, one `add` event per key, of which only the last carries
the recorded state: the specification computes the intermediate states it was not shown.  Traces are written to $SUITE_REC_OUT/<n>.json at test teardown."""
import json
import os

DB = 1 << 30
_state = {"sess": None, "paused": 0, "n": 0, "cm": None}


def big(n):
    n = int(n)
    out = []
    while n:
        out.append(n & (DB - 1))
        n >>= 30
    return out


def kb(k):
    return list(bytes(k))


class Trace:
    def __init__(self, test, W, D):
        self.test, self.W, self.D = test, W, D
        self.slots = []          # real objects, or dicts (frozen images of saved files)
        self.keys = {}
        self.events = []
        self.unsupported = None

    def slot_of(self, obj):
        for i, s in enumerate(self.slots):
            if s is obj:
                return i
        return None

    def proj(self, s):
        if isinstance(s, dict):
            return s
        return {"tbl": [[big(x) for x in row] for row in s.cms.tolist()],
                "nadd": big(s.n_added_records[0]), "nrec": big(s.n_added_records[1])}

    def key(self, k):
        k = bytes(k)
        if k not in self.keys:
            cm = _state["cm"]
            _state["paused"] += 1
            try:
                probe = cm.CountMinLinear(self.W, self.D)
                probe.add(k)
                cols = []
                for r in range(self.D):
                    nz = [i for i, x in enumerate(probe.cms[r].tolist()) if x]
                    if len(nz) != 1:
                        self.unsupported = "probe add left %d non-zero cells in a row" % len(nz)
                        nz = [0]
                    cols.append(nz[0] + 1)
                self.keys[k] = cols
            finally:
                _state["paused"] -= 1
        return kb(k)

    def emit(self, ev, post=True, touched=None):
        """Only the slots the call touched are projected (`posts`: [slot, state] pairs): the suite's
        n-gram tests keep 17 sketches of 1600 cells alive.  The complete state of every slot is
        recorded once, with the last event of the test (`post`)."""
        if post:
            idx = touched if touched is not None else [ev["s"] - 1] + ([ev["t"] - 1] if "t" in ev else [])
            ev["posts"] = [{"s": i + 1, "st": self.proj(self.slots[i])} for i in sorted(set(idx))]
        self.events.append(ev)


class Session:
    def __init__(self, test):
        self.test = test
        self.traces = {}
        self.files = {}          # path -> (trace, frozen slot index)

    def trace_for(self, obj, create=False):
        key = (int(obj.width), int(obj.depth))
        t = self.traces.get(key)
        if t is None and create:
            t = self.traces[key] = Trace(self.test, *key)
        return t

    def finish(self, outdir):
        for t in self.traces.values():
            if not t.events:
                continue
            if len(t.events) > 2000:
                # tens of thousands of single add() calls: keep the recorded state of every 100th call,
                # the specification computes the others
                for n, e in enumerate(t.events):
                    if n % 100 and e["ev"] != "query":
                        e.pop("posts", None)
            t.events[-1]["post"] = [t.proj(s) for s in t.slots]      # teardown: the complete final state
            _state["n"] += 1
            rec = {"test": t.test, "W": t.W, "D": t.D, "NS": max(1, len(t.slots)),
                   "keys": [{"b": kb(k), "cols": c} for k, c in t.keys.items()],
                   "events": t.events, "unsupported": t.unsupported}
            with open(os.path.join(outdir, "%04d.json" % _state["n"]), "w") as f:
                json.dump(rec, f)


def _active(obj):
    cm = _state["cm"]
    return _state["sess"] is not None and not _state["paused"] and type(obj) is cm.CountMinLinear


def install():
    import sketchnu.countmin as cm
    _state["cm"] = cm
    C = cm.CountMinLinear
    orig = {n: C.__dict__[n] for n in ("__init__", "add", "update", "add_ngram", "update_ngram", "merge", "query",
                                       "__getitem__", "save")}
    orig_load = C.__dict__["load"]
    orig_load_fn = orig_load.__func__ if isinstance(orig_load, staticmethod) else orig_load
    orig_mod_load = cm.load

    def inner(name, *a):
        """The original method, with recording paused: update() is implemented through add()."""
        _state["paused"] += 1
        try:
            return orig[name](*a)
        finally:
            _state["paused"] -= 1

    def located(obj):
        """(trace, slot index) of a recorded sketch, or (None, None)."""
        if not _active(obj):
            return None, None
        t = _state["sess"].trace_for(obj)
        if t is None:
            return None, None
        i = t.slot_of(obj)
        if i is None:
            return None, None
        return t, i

    def register(obj):
        t = _state["sess"].trace_for(obj, create=True)
        t.slots.append(obj)
        return t, len(t.slots) - 1

    def init(self, *a, **k):
        orig["__init__"](self, *a, **k)
        if _active(self):
            register(self)

    def add(self, key, value=1):
        t, i = located(self)
        inner("add", self, key, value)
        if t is not None:
            t.emit({"ev": "add", "s": i + 1, "k": t.key(key), "v": big(value)})

    def update(self, keys):
        t, i = located(self)
        if t is None:
            return inner("update", self, keys)
        if isinstance(keys, dict):
            kvs = list(keys.items())
            inner("update", self, keys)
            t.emit({"ev": "update_dict", "s": i + 1, "kvs": [[t.key(k), big(v)] for k, v in kvs]})
            return None
        ks = list(keys)
        inner("update", self, ks)
        if len(ks) <= 16:
            t.emit({"ev": "update_list", "s": i + 1, "ks": [t.key(k) for k in ks]})
            return None
        # a long list (the suite feeds 50 000 keys in one call) is logged as its unit steps: one `add`
        # event per key, of which only the last carries the recorded state -- the specification
        # computes the intermediate states it was not shown
        for n, k in enumerate(ks):
            t.emit({"ev": "add", "s": i + 1, "k": t.key(k), "v": big(1)}, post=n == len(ks) - 1)
        return None

    def windows(key, n):
        if len(key) <= n:
            return [key]
        return [key[j:j + n] for j in range(len(key) - n + 1)]

    def add_ngram(self, key, ngram):
        t, i = located(self)
        inner("add_ngram", self, key, ngram)
        if t is not None:
            for w in windows(bytes(key), ngram):
                t.key(w)
            t.emit({"ev": "add_ngram", "s": i + 1, "key": kb(key), "n": int(ngram)})

    def update_ngram(self, keys, ngram):
        t, i = located(self)
        if t is None:
            return inner("update_ngram", self, keys, ngram)
        ks = list(keys)
        inner("update_ngram", self, ks, ngram)
        for k in ks:
            for w in windows(bytes(k), ngram):
                t.key(w)
        t.emit({"ev": "update_ngram", "s": i + 1, "keys": [kb(k) for k in ks], "n": int(ngram)})
        return None

    def merge(self, other):
        t, i = located(self)
        inner("merge", self, other)
        if t is not None:
            j = t.slot_of(other)
            if j is None:
                t.unsupported = "merge with a sketch that was not recorded"
            else:
                t.emit({"ev": "merge", "s": i + 1, "t": j + 1})

    def query(self, key):
        t, i = located(self)
        out = inner("query", self, key)
        if t is not None:
            t.emit({"ev": "query", "s": i + 1, "k": t.key(key), "out": big(out)})
        return out

    def getitem(self, key):
        t, i = located(self)
        _state["paused"] += 1           # __getitem__ may be implemented through query()
        try:
            out = orig["__getitem__"](self, key)
        finally:
            _state["paused"] -= 1
        if t is not None:
            t.emit({"ev": "query", "s": i + 1, "k": t.key(key), "out": big(out)})
        return out

    def save(self, filename):
        t, i = located(self)
        inner("save", self, filename)
        if t is not None:
            # the file is a frozen image of the sketch as of now: an extra slot without a real object
            t.slots.append(dict(t.proj(self)))
            j = len(t.slots) - 1
            t.emit({"ev": "saveload", "s": i + 1, "t": j + 1})
            _state["sess"].files[os.path.abspath(str(filename))] = (t, j)

    def loaded(new, filename):
        if _state["sess"] is None or _state["paused"] or type(new) is not cm.CountMinLinear:
            return
        src = _state["sess"].files.get(os.path.abspath(str(filename)))
        if src is None:
            return
        t, j = src
        if (int(new.width), int(new.depth)) != (t.W, t.D):
            t.unsupported = "load returned another shape"
            return
        t.slots.append(new)
        t.emit({"ev": "saveload", "s": j + 1, "t": len(t.slots)})

    def load_static(filename, shared_memory=False):
        _state["paused"] += 1
        try:
            new = orig_load_fn(filename, shared_memory)
        finally:
            _state["paused"] -= 1
        loaded(new, filename)
        return new

    def load_module(filename, shared_memory=False):
        _state["paused"] += 1
        try:
            new = orig_mod_load(filename, shared_memory)
        finally:
            _state["paused"] -= 1
        loaded(new, filename)
        return new

    C.__init__ = init
    C.add = add
    C.update = update
    C.add_ngram = add_ngram
    C.update_ngram = update_ngram
    C.merge = merge
    C.query = query
    C.__getitem__ = getitem
    C.save = save
    C.load = staticmethod(load_static)
    cm.load = load_module


def pytest_configure(config):
    os.makedirs(os.environ["SUITE_REC_OUT"], exist_ok=True)
    install()


def pytest_runtest_setup(item):
    _state["sess"] = Session(item.nodeid)


def pytest_runtest_teardown(item, nextitem):
    sess = _state["sess"]
    _state["sess"] = None
    if sess is not None:
        sess.finish(os.environ["SUITE_REC_OUT"])
