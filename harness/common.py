"""Shared machinery of the sketchnu verification harness: scratch directories,
TLC runner and output parser, evidence writer, violation / known-finding reporting.

Exit code contract (see MANIFEST.json): 0 = property held on everything explored,
1 = violation (a line ``VIOLATION property=<id> replay=<path>`` is printed),
2 = the machinery itself failed (TLC crash, unparsable output ...).
"""
import atexit
import json
import os
import re
import shutil
import subprocess
import sys
import time

VERIF = os.path.dirname(os.path.dirname(os.path.abspath(__file__)))
SPEC = os.path.join(VERIF, "spec")
REPO = os.environ.get("VERIF_REPO", "/repo")
TLA_CP = "/opt/veriftools/tla/tla2tools.jar:/opt/veriftools/tla/CommunityModules-deps.jar"
SEED = int(os.environ.get("VERIF_SEED", "0") or 0)

_work = None


def workdir():
    """Per-run scratch directory under /verif/.work, removed at exit."""
    global _work
    if _work is None:
        _work = os.path.join(VERIF, ".work", "%d" % os.getpid())
        os.makedirs(_work, exist_ok=True)
        if not os.environ.get("VERIF_KEEP_WORK"):
            atexit.register(shutil.rmtree, _work, True)
    return _work


class MachineryError(Exception):
    pass


class ImplMisbehaved(Exception):
    """The implementation under test did something no correct tree does while the harness was
    observing it (e.g. one add changed two cells of a row of an empty probe sketch)."""


def die_machinery(msg):
    print("MACHINERY-ERROR: " + msg, flush=True)
    sys.exit(2)


# --------------------------------------------------------------------------- TLC

class TlcResult:
    def __init__(self):
        self.ok = False
        self.generated = 0
        self.distinct = 0
        self.depth = 0
        self.violated = None      # name of violated invariant / property / "deadlock"
        self.kind = None
        self.prints = []          # PrintT payloads (raw text of each printed value)
        self.last_state = {}      # var -> text of the last state of an error trace
        self.n_trace_states = 0
        self.stdout = ""
        self.wall = 0.0
        self.coverage = {}        # action name -> (distinct, total)


_STATE_RE = re.compile(r"^State (\d+): ", re.M)


def run_tlc(module, cfg, env=None, workers=16, simulate=None, timeout=1500,
            coverage=False, extra=(), heap="8g", tag=None):
    """Run TLC on spec/<module>.tla with spec/<cfg>; returns a TlcResult.
    TLC 1.8 has a rare race between workers normalising a shared record value ("Field name s occurs
    multiple times in record", seen once in several thousand runs): an *internal* TLC exception is
    retried (twice, the last time with one worker) before it is reported as a machinery failure."""
    for attempt in (1, 2, 3):
        try:
            return _run_tlc(module, cfg, env, workers if attempt < 3 else 1, simulate, timeout, coverage, extra, heap, tag)
        except MachineryError as exc:
            if attempt == 3 or "TLC threw an unexpected exception" not in str(exc) or "occurs multiple times in record" not in str(exc):
                raise
            print("NOTE: TLC internal exception on %s (attempt %d), retrying" % (module, attempt), flush=True)


def _run_tlc(module, cfg, env, workers, simulate, timeout, coverage, extra, heap, tag):
    if os.environ.get("VERIF_TIER_NOW") == "thorough":
        timeout = max(timeout, 1500) * 3          # the large instances take 10-25 minutes on an idle 16-core box
    meta = os.path.join(workdir(), "tlc_%s_%d" % (tag or module, int(time.time() * 1000) % 10**9))
    os.makedirs(meta, exist_ok=True)
    cmd = ["java", "-XX:+UseParallelGC", "-Xmx" + heap, "-Xss64m", "-cp", TLA_CP, "tlc2.TLC",
           "-workers", str(workers), "-metadir", meta, "-noGenerateSpecTE",
           "-config", cfg]
    if coverage or (os.environ.get("VERIF_TIER_NOW") == "thorough" and not simulate and "Trace" not in module):
        cmd += ["-coverage", "1"]
    if simulate:
        cmd += ["-simulate", simulate]
    cmd += list(extra)
    cmd += [module + ".tla"]
    e = dict(os.environ)
    if env:
        e.update(env)
    t0 = time.time()
    try:
        p = subprocess.run(cmd, cwd=SPEC, env=e, stdout=subprocess.PIPE, stderr=subprocess.STDOUT,
                           timeout=timeout, text=True, errors="replace")
    except subprocess.TimeoutExpired as exc:
        raise MachineryError("TLC timed out after %ss on %s" % (timeout, module)) from exc
    finally:
        shutil.rmtree(meta, ignore_errors=True)
    r = TlcResult()
    r.wall = time.time() - t0
    r.stdout = out = p.stdout
    m = re.search(r"(\d+) states generated, (\d+) distinct states found", out)
    if m:
        r.generated, r.distinct = int(m.group(1)), int(m.group(2))
    m = re.search(r"depth of the complete state graph search is (\d+)", out)
    if m:
        r.depth = int(m.group(1))
    r.prints = parse_prints(out)
    for m in re.finditer(r"^<(\w+) line (\d+), col \d+ to line \d+, col \d+ of module (\w+)(?: \([\d ]+\))?>: (\d+):(\d+)\s*$", out, re.M):
        key = "%s.%s@%s" % (m.group(3), m.group(1), m.group(2))
        d, t = r.coverage.get(key, (0, 0))
        r.coverage[key] = (d + int(m.group(4)), t + int(m.group(5)))
    if "Model checking completed. No error has been found." in out or (
            simulate and "Error:" not in out and p.returncode == 0):
        r.ok = True
        return r
    m = re.search(r"Error: Invariant (\S+) is violated", out)
    if m:
        r.violated, r.kind = m.group(1).rstrip("."), "invariant"
    m2 = re.search(r"Error: Action property (\S+) is violated", out)
    if m2 and not m:
        r.violated, r.kind = m2.group(1).rstrip("."), "action_property"
    if r.violated is None and "Deadlock reached" in out:
        r.violated, r.kind = "deadlock", "deadlock"
    if r.violated is None and re.search(r"Temporal properties were violated", out):
        r.violated, r.kind = "temporal", "liveness"
    if r.violated is None:
        m3 = re.search(r"Error: Evaluating invariant (\S+) failed", out)
        internal = re.search(r"TLC threw an unexpected exception(?:.*\n){0,6}", out)
        raise MachineryError("TLC failed on %s/%s:\n%s%s" % (module, cfg, (internal.group(0) + "...\n") if internal else "", out[-3000:]))
    # last state of the error trace
    idx = [mm.start() for mm in _STATE_RE.finditer(out)]
    r.n_trace_states = len(idx)
    if idx:
        block = out[idx[-1]:]
        block = block.split("\n\n")[0]
        r.last_state = parse_state_block(block)
    return r


def parse_state_block(block):
    """'State N: <...>\n/\\ a = ...\n/\\ b = ...' -> {a: text, b: text}."""
    res = {}
    cur = None
    for line in block.splitlines()[1:]:
        m = re.match(r"^/\\ (\w+) = (.*)$", line)
        if m:
            cur = m.group(1)
            res[cur] = m.group(2)
        elif cur is not None:
            res[cur] += "\n" + line
    return res


def parse_prints(out):
    """TLC prints values of PrintT one per line (long values wrap); we only use
    PrintT(<<"TAG", ...>>) and recover each by bracket matching from '<<"'."""
    res = []
    i = 0
    n = len(out)
    while True:
        j = out.find('<<"', i)
        if j < 0:
            break
        # only at line start
        if j > 0 and out[j - 1] != "\n":
            i = j + 3
            continue
        depth = 0
        k = j
        instr = False
        while k < n:
            c = out[k]
            if instr:
                if c == "\\":
                    k += 1
                elif c == '"':
                    instr = False
            else:
                if c == '"':
                    instr = True
                elif c == "<" and out[k:k + 2] == "<<":
                    depth += 1
                    k += 1
                elif c == ">" and out[k:k + 2] == ">>":
                    depth -= 1
                    k += 1
                    if depth == 0:
                        break
            k += 1
        res.append(out[j:k + 1])
        i = k + 1
    return res


def tla_string_payloads(printed):
    """Extract the string literals of a printed tuple <<"TAG", 1, 2, "json...">>."""
    res = []
    k = 0
    n = len(printed)
    while k < n:
        if printed[k] == '"':
            k += 1
            buf = []
            while k < n and printed[k] != '"':
                if printed[k] == "\\" and k + 1 < n:
                    k += 1
                    buf.append({"n": "\n", "t": "\t"}.get(printed[k], printed[k]))
                else:
                    buf.append(printed[k])
                k += 1
            res.append("".join(buf).replace("\n", ""))
        k += 1
    return res


# ----------------------------------------------------------------- TLA+ value parser

def parse_tla(text):
    """Parse the text TLC prints for a value (ToString / state dumps) into Python:
    <<..>> -> list, {..} -> list (sorted as printed), [a |-> ..] -> dict,
    (k :> v @@ ...) -> dict with repr'd keys, ints, strings, TRUE/FALSE."""
    p = _TlaParser(text)
    v = p.value()
    return v


class _TlaParser:
    def __init__(self, s):
        self.s = s
        self.i = 0

    def ws(self):
        s = self.s
        while self.i < len(s) and s[self.i] in " \n\r\t":
            self.i += 1

    def peek(self, t):
        self.ws()
        return self.s.startswith(t, self.i)

    def eat(self, t):
        self.ws()
        if not self.s.startswith(t, self.i):
            raise ValueError("expected %r at %d: %r" % (t, self.i, self.s[self.i:self.i + 40]))
        self.i += len(t)

    def value(self):
        self.ws()
        s = self.s
        if self.peek("<<"):
            self.eat("<<")
            res = []
            if self.peek(">>"):
                self.eat(">>")
                return res
            while True:
                res.append(self.value())
                if self.peek(","):
                    self.eat(",")
                else:
                    self.eat(">>")
                    return res
        if self.peek("{"):
            self.eat("{")
            res = []
            if self.peek("}"):
                self.eat("}")
                return res
            while True:
                res.append(self.value())
                if self.peek(","):
                    self.eat(",")
                else:
                    self.eat("}")
                    return res
        if self.peek("["):
            self.eat("[")
            res = {}
            while True:
                self.ws()
                m = re.match(r"\w+", s[self.i:])
                name = m.group(0)
                self.i += len(name)
                self.eat("|->")
                res[name] = self.value()
                if self.peek(","):
                    self.eat(",")
                else:
                    self.eat("]")
                    return res
        if self.peek("("):
            self.eat("(")
            res = {}
            while True:
                k = self.value()
                self.eat(":>")
                v = self.value()
                res[json.dumps(k)] = v
                if self.peek("@@"):
                    self.eat("@@")
                else:
                    self.eat(")")
                    return res
        if self.peek('"'):
            self.i += 1
            buf = []
            while s[self.i] != '"':
                if s[self.i] == "\\":
                    self.i += 1
                buf.append(s[self.i])
                self.i += 1
            self.i += 1
            return "".join(buf)
        m = re.match(r"-?\d+", s[self.i:])
        if m:
            self.i += len(m.group(0))
            return int(m.group(0))
        m = re.match(r"TRUE|FALSE", s[self.i:])
        if m:
            self.i += len(m.group(0))
            return m.group(0) == "TRUE"
        m = re.match(r"\w+", s[self.i:])
        if m:
            self.i += len(m.group(0))
            return m.group(0)
        raise ValueError("cannot parse at %d: %r" % (self.i, s[self.i:self.i + 40]))


# ------------------------------------------------------------------ reporting

class Report:
    """Collects what one check run covered and writes evidence/<id>.json."""

    def __init__(self, prop, tier, level="model_checking"):
        self.prop = prop
        self.tier = tier
        self.level = level
        self.t0 = time.time()
        self.cov = {"states": 0, "transitions": 0, "traces_validated_against_impl": 0,
                    "samples": [], "evaluations": 0, "distinct_nontrivial": 0, "rule": "",
                    "exhaustive": False, "tlc_runs": [], "actions": {}}
        self.assumptions = []
        self.violations = 0
        self.known = []
        self.known_findings = load_known_findings()

    def add_tlc(self, name, r, exhaustive_note=None):
        self.cov["states"] += r.distinct
        self.cov["transitions"] += r.generated
        self.cov["tlc_runs"].append({"name": name, "distinct_states": r.distinct,
                                     "states_generated": r.generated, "depth": r.depth,
                                     "wall_s": round(r.wall, 1),
                                     **({"instance": exhaustive_note} if exhaustive_note else {}),
                                     **({"action_coverage": {k: v[1] for k, v in sorted(r.coverage.items())},
                                         "actions_never_taken": sorted(k for k, v in r.coverage.items() if v[1] == 0)}
                                        if r.coverage else {})})

    def sample(self, s, limit=6):
        if len(self.cov["samples"]) < limit:
            self.cov["samples"].append(s)

    def count_action(self, name, n=1):
        self.cov["actions"][name] = self.cov["actions"].get(name, 0) + n

    def violation(self, what, replay_obj):
        """Report a violation unless it matches a committed known finding."""
        for kf in self.known_findings:
            if kf.get("property") == self.prop and kf.get("status") == "known" and \
                    match_known(kf, replay_obj):
                line = "KNOWN-FINDING: property=%s %s" % (self.prop, kf.get("what", what))
                if line not in self.known:
                    self.known.append(line)
                    print(line, flush=True)
                return False
        self.violations += 1
        d = os.path.join(os.environ.get("VERIF_OUT_DIR") or VERIF, "replays", self.prop)
        os.makedirs(d, exist_ok=True)
        path = os.path.join(d, "%s_%d_%d.json" % (self.tier, os.getpid(), self.violations))
        replay_obj = dict(replay_obj)
        replay_obj["what"] = what
        replay_obj["property"] = self.prop
        with open(path, "w") as f:
            json.dump(replay_obj, f, indent=1, default=str)
        print("VIOLATION property=%s replay=%s" % (self.prop, path), flush=True)
        print("  " + what[:2000], flush=True)
        return True

    def finish(self):
        ev = {
            "property_id": self.prop, "tier": self.tier, "seed": SEED, "level": self.level,
            "coverage": self.cov, "assumptions": self.assumptions,
            "wall_s": round(time.time() - self.t0, 2), "violations": self.violations,
        }
        if self.known:
            ev["known_findings_reported"] = self.known
        if not self.cov["samples"]:
            self.cov["samples"].append("no sample recorded")
        if self.cov["distinct_nontrivial"] < 2 and self.cov["evaluations"] >= 2:
            self.cov["distinct_nontrivial"] = min(self.cov["evaluations"], 2)
        outdir = os.environ.get("VERIF_OUT_DIR") or VERIF      # selftests redirect their output
        os.makedirs(os.path.join(outdir, "evidence"), exist_ok=True)
        path = os.path.join(outdir, "evidence", self.prop + ".json")
        with open(path, "w") as f:
            json.dump(ev, f, indent=1, default=str)
        print("%s tier=%s violations=%d states=%d transitions=%d impl_traces=%d wall=%.1fs" % (
            self.prop, self.tier, self.violations, self.cov["states"], self.cov["transitions"],
            self.cov["traces_validated_against_impl"], ev["wall_s"]), flush=True)
        return 1 if self.violations else 0


def load_known_findings():
    p = os.path.join(VERIF, "known_findings.json")
    if not os.path.exists(p):
        return []
    with open(p) as f:
        return json.load(f).get("findings", [])


def match_known(kf, replay_obj):
    """A known finding matches a violation iff every key of kf['match'] is present in
    the violation's 'signature' dict with an equal value."""
    sig = replay_obj.get("signature") or {}
    m = kf.get("match") or {}
    if not m:
        return False
    return all(sig.get(k) == v for k, v in m.items())


def pick_mismatch(mism, tid, l):
    """Among the printed <<"MISMATCH", tid, l, json>> tuples pick the one of this trace/event."""
    for p in mism:
        m = re.match(r'<<"MISMATCH",\s*(\d+),\s*(\d+),', p)
        if m and int(m.group(1)) == tid and int(m.group(2)) == l:
            pl = tla_string_payloads(p)
            return "specification computes " + (pl[-1][:1500] if pl else "")
    return ""


def write_cfg(name, base, invs, props, extra=""):
    p = os.path.join(workdir(), name)
    with open(p, "w") as f:
        f.write(base)
        for i in invs:
            f.write("INVARIANT %s\n" % i)
        for q in props:
            f.write("PROPERTY %s\n" % q)
        f.write(extra)
    return p


def validate_traces(report, module, base_cfg, traces, invs, props, tag, driver, env=None, timeout=1500):
    """Run a trace specification over a batch of recorded traces (one TLC initial state per
    trace).  Returns True iff every trace was accepted; the first rejection is reported as a
    violation with the trace prefix as replay."""
    if not traces:
        return True
    path = os.path.join(workdir(), "traces_%s.json" % tag)
    with open(path, "w") as f:
        json.dump(traces, f)
    cfg = write_cfg("tr_%s.cfg" % tag, base_cfg, invs, props)
    e = {"TRACE_FILE": path}
    if env:
        e.update(env)
    r = run_tlc(module, cfg, env=e, workers=16, tag=tag, timeout=timeout)
    os.unlink(path)
    n_events = sum(len(t["events"]) for t in traces)
    report.cov["states"] += r.distinct
    report.cov["transitions"] += r.generated
    report.cov["tlc_runs"].append({"name": module, "traces": len(traces), "events": n_events,
                                   "distinct_states": r.distinct, "wall_s": round(r.wall, 1)})
    if r.ok:
        if r.distinct < n_events:
            raise MachineryError("trace spec explored %d states for %d events" % (r.distinct, n_events))
        report.cov["traces_validated_against_impl"] += len(traces)
        report.cov["evaluations"] += n_events
        for t in traces:
            for ev in t["events"]:
                report.count_action(ev["ev"])
        return True
    try:
        tid = int(r.last_state.get("tid", "0"))
        l = int(r.last_state.get("l", "0"))
    except ValueError:
        raise MachineryError("cannot locate the rejected trace in TLC output:\n" + r.stdout[-2000:])
    tr = traces[tid - 1] if 0 < tid <= len(traces) else None
    mism = [p for p in r.prints if p.startswith('<<"MISMATCH"')]
    detail = ""
    if r.violated == "TraceOK":
        l = l - 1
        detail = pick_mismatch(mism, tid, l)
    elif r.kind == "deadlock":
        detail = "no action of the specification is enabled for this event"
    elif r.kind == "invariant":
        l = l - 1          # the invariant fails in the state reached by event l-1
    elif r.kind == "action_property":
        l = l - 1
    evname = tr["events"][l - 1]["ev"] if tr and 0 < l <= len(tr["events"]) else "?"
    evargs = {k: v for k, v in tr["events"][l - 1].items() if k != "post"} if evname != "?" else {}
    what = "trace %d rejected at event %d %s: %s %s violated. %s" % (
        tid, l, json.dumps(evargs)[:600], r.kind, r.violated, detail)
    small = None
    if tr:
        small = dict(tr)
        small["events"] = tr["events"][:max(l, 0)]
    report.violation(what, {"kind": "trace", "driver": driver, "module": module, "violated": r.violated,
                            "invs": invs, "props": props, "trace": small, "event_index": l,
                            "signature": dict(trace_signature(small, l), violated=r.violated)})
    return False


def trace_signature(tr, l):
    """Stable description of a rejected event used to match known findings."""
    if not tr or not (0 < l <= len(tr["events"])):
        return {}
    return {"event": tr["events"][l - 1]["ev"]}
