"""Constructor validation, factory and attach dispatch against spec/Constructors.tla
(specification growth beyond the listed properties; run as part of C18)."""
import json
import os

import numpy as np

import common
from common import run_tlc, workdir
import impl
from cm_log import digits


def call_events(rng, quick):
    cm, hl, hh = impl.countmin, impl.hyperloglog.HyperLogLog, impl.heavyhitters.HeavyHitters
    evs = []

    def run(call, fn):
        try:
            sk = fn()
        except ValueError:
            evs.append({"call": call, "outcome": "ValueError", "cls": "", "params_ok": False})
            return
        except TypeError:
            evs.append({"call": call, "outcome": "TypeError", "cls": "", "params_ok": False})
            return
        import persist
        evs.append({"call": call, "outcome": "ok", "cls": persist.cls_of(sk), "params_ok": params_match(call, sk)})

    def params_match(call, sk):
        c = call if call["fn"] not in ("factory",) else dict(call, fn=call["kind"])
        f = c["fn"]
        try:
            if f in ("linear", "log16", "log8"):
                ok = int(sk.width) == c["width"] and int(sk.depth) == c["depth"]
                if f != "linear":
                    ok = ok and int(sk.max_count) == c["_maxc"] and int(sk.num_reserved) == c["nr"] and float(sk.base) > 1.0
                return bool(ok)
            if f == "hll":
                return int(sk.p) == c["p"] and int(sk.seed) == c["_seed"] and len(sk.registers) == 1 << c["p"]
            if f == "hh":
                ok = int(sk.width) == c["width"] and int(sk.depth) == c["depth"] and int(sk.max_key_len) == c["L"]
                want = (1.0 / c["width"]) if c["_phi"] is None else c["_phi"]
                return bool(ok and float(sk.phi) == want and sk.lhh.shape == (c["depth"], c["width"], c["L"]))
        except Exception:
            return False
        return True
    widths = [-1, 0, 1, 7]
    for w in widths:
        for d in [-2, 0, 1, 3]:
            run({"fn": "linear", "width": w, "depth": d}, lambda: cm.CountMinLinear(w, d))
    for kind, um, cls, nr0 in (("log16", 65535, cm.CountMinLog16, 1023), ("log8", 255, cm.CountMinLog8, 15)):
        for w, d in [(0, 1), (1, 0), (2, 2)]:
            for mc in [um - 1, um, um + 1, 300, 70000, 2**32 - 1, 2**63]:
                for nr in [0, 1, nr0, um - 3, um - 2, um - 1, um, um + 5]:
                    if mc - nr > um - nr and um - nr >= 2 and (mc - um) * 100 < (um - nr):
                        continue          # ill-conditioned (see C18)
                    call = {"fn": kind, "width": w, "depth": d, "maxc": digits(mc), "_maxc": mc, "nr": nr}
                    run(call, lambda: cls(w, d, mc, nr))
                    if w > 0 and d > 0 and rng.random() < 0.3:
                        run(dict(call, fn="factory", kind=kind), lambda: cm.CountMin(kind, w, d, mc, nr))
    for kind in ("linear", "log16", "log8", "log32", "", "Linear"):
        dflt = {"log16": 1023, "log8": 15}.get(kind, 0)
        call = {"fn": "factory", "kind": kind, "width": 3, "depth": 2, "maxc": digits(2**32 - 1), "_maxc": 2**32 - 1, "nr": dflt}
        run(call, lambda: cm.CountMin(kind, 3, 2))
    for p in [0, 6, 7, 8, 16, 17, 64]:
        for seed in [0, 2**63 + 5]:
            run({"fn": "hll", "p": p, "_seed": seed}, lambda: hl(p, seed))
    for w, d, L, phi, tag in [(1, 1, 1, None, "none"), (0, 1, 1, None, "none"), (2, 0, 4, None, "none"), (2, 2, 0, None, "none"),
                              (2, 2, 255, None, "none"), (2, 2, 256, None, "none"), (3, 2, 4, 0.5, "in"), (3, 2, 4, 1.0, "in"),
                              (3, 2, 4, 0.0, "out"), (3, 2, 4, 1.5, "out"), (3, 2, 4, -0.1, "out"), (3, 2, 4, 1, "notfloat"),
                              (3, 2, 4, "x", "notfloat"), (np.int64(3), np.uint8(2), np.int32(4), np.float32(0.25), "in")]:
        ints_ok = all(isinstance(x, (int, np.integer)) and not isinstance(x, bool) for x in (w, d, L))
        call = {"fn": "hh", "width": int(w), "depth": int(d), "L": int(L), "phi": tag, "_phi": None if phi is None else (float(phi) if tag in ("in", "out") else None),
                "ints_ok": ints_ok, "shm_is_bool": True}
        run(call, lambda: hh(w, d, L, phi))
    run({"fn": "hh", "width": 2, "depth": 2, "L": 4, "phi": "none", "_phi": None, "ints_ok": False, "shm_is_bool": True},
        lambda: hh(2.0, 2, 4))
    run({"fn": "hh", "width": 2, "depth": 2, "L": 4, "phi": "none", "_phi": None, "ints_ok": True, "shm_is_bool": False},
        lambda: hh(2, 2, 4, None, 1))
    # attach dispatch
    owner = cm.CountMin("log8", 3, 2, shared_memory=True)
    howner = hh(2, 2, 3, shared_memory=True)
    lowner = hl(7, 1, shared_memory=True)
    for kind, args, name, target in [("cms", owner.args, owner.shm.name, "log8"), ("hh", howner.args, howner.shm.name, "hh"),
                                     ("hll", lowner.args, lowner.shm.name, "hll"), ("cm", owner.args, owner.shm.name, ""),
                                     ("HLL", lowner.args, lowner.shm.name, "")]:
        run({"fn": "attach", "kind": kind, "target": target}, lambda: impl.helpers.attach_shared_memory(kind, dict(args), name))
    del owner, howner, lowner
    out = []
    for e in evs:
        e = dict(e)
        e["call"] = {k: v for k, v in e["call"].items() if not k.startswith("_")}
        out.append(e)
    return out


def validate(report, rng, quick):
    evs = call_events(rng, quick)
    path = os.path.join(workdir(), "ctors.json")
    with open(path, "w") as f:
        json.dump(evs, f)
    r = run_tlc("Constructors", os.path.join(common.SPEC, "Constructors.cfg"), env={"TRACE_FILE": path}, workers=1, tag="ctors")
    os.unlink(path)
    report.add_tlc("Constructors (%d calls: validation, factory and attach dispatch)" % len(evs), r)
    if r.ok:
        report.cov["traces_validated_against_impl"] += len(evs)
        report.cov["evaluations"] += len(evs)
        report.count_action("constructor_ok", sum(e["outcome"] == "ok" for e in evs))
        report.count_action("constructor_rejected", sum(e["outcome"] != "ok" for e in evs))
        return True
    detail = ""
    for p in r.prints:
        if p.startswith('<<"MISMATCH"'):
            detail = common.tla_string_payloads(p)[-1]
    report.violation("constructor call rejected by Constructors.tla: %s" % detail[:600],
                     {"kind": "ctor", "detail": detail, "signature": {"ctor": "mismatch"}})
    return False
