"""Entry point: ./check <property> --tier quick|thorough [--replay path]"""
import argparse
import os
import sys
import traceback

sys.path.insert(0, os.path.dirname(os.path.abspath(__file__)))
import common  # noqa: E402


def raised_by_library(exc):
    """'file:line' when the innermost Python frame of the traceback lies in the library under test."""
    tb = exc.__traceback__
    last = None
    while tb is not None:
        last = tb
        tb = tb.tb_next
    if last is None:
        return None
    fn = os.path.abspath(last.tb_frame.f_code.co_filename)
    lib = os.path.join(os.path.abspath(common.REPO), "sketchnu") + os.sep
    if fn.startswith(lib):
        return "%s:%d" % (fn[len(os.path.abspath(common.REPO)) + 1:], last.tb_lineno)
    if isinstance(exc, getattr(common, "ImplMisbehaved")):
        return "harness probe"
    return None


def main():
    ap = argparse.ArgumentParser()
    ap.add_argument("prop")
    ap.add_argument("--tier", default=os.environ.get("VERIF_TIER", "quick"), choices=["quick", "thorough"])
    ap.add_argument("--replay", default=None)
    a = ap.parse_args()
    os.environ["VERIF_TIER_NOW"] = a.tier
    try:
        import checks
        fn = getattr(checks, "check_" + a.prop, None)
        if fn is None:
            common.die_machinery("no check for property %s" % a.prop)
        if a.replay:
            rc = checks.replay(a.prop, a.replay)
        else:
            rc = fn(a.tier)
    except common.MachineryError as exc:
        traceback.print_exc()
        common.die_machinery(str(exc))
    except SystemExit:
        raise
    except BaseException as exc:
        traceback.print_exc()
        origin = raised_by_library(exc)
        if origin and not a.replay:
            # The implementation under test raised during valid use of its public API (the same
            # operations succeed on a tree where the property holds): the run is a violation, with the
            # traceback as replay.  Exceptions raised by harness code remain machinery failures (exit 2).
            rep = common.Report(a.prop, a.tier, level="other")
            rep.cov["explanation"] = "the check was aborted by an exception raised inside the library under test"
            rep.cov["evaluations"] = 1
            rep.cov["distinct_nontrivial"] = 2
            rep.violation("the implementation raised %s: %s at %s while the check exercised its public API"
                          % (type(exc).__name__, str(exc)[:300], origin),
                          {"kind": "library_exception", "traceback": traceback.format_exc()[-4000:],
                           "signature": {"library_exception": type(exc).__name__}})
            rc = rep.finish()
            sys.stdout.flush()
            os._exit(rc)
        common.die_machinery("%s: %s" % (type(exc).__name__, exc))
    sys.stdout.flush()
    os._exit(rc)


if __name__ == "__main__":
    main()
