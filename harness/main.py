"""Entry point: ./check <property> --tier quick|thorough [--replay path]"""
import argparse
import os
import sys
import traceback

sys.path.insert(0, os.path.dirname(os.path.abspath(__file__)))
import common  # noqa: E402


def main():
    ap = argparse.ArgumentParser()
    ap.add_argument("prop")
    ap.add_argument("--tier", default=os.environ.get("VERIF_TIER", "quick"), choices=["quick", "thorough"])
    ap.add_argument("--replay", default=None)
    a = ap.parse_args()
    try:
        import checks
        fn = getattr(checks, "check_" + a.prop, None)
        if fn is None:
            common.die_machinery("no check for property %s" % a.prop)
        if a.replay:
            rc = checks.replay(a.prop, a.replay)
        else:
            rc = fn(a.tier)
    except common.MachineryError as exc:
        traceback.print_exc()
        common.die_machinery(str(exc))
    except SystemExit:
        raise
    except BaseException as exc:   # harness bug: never a verdict
        traceback.print_exc()
        common.die_machinery("%s: %s" % (type(exc).__name__, exc))
    sys.stdout.flush()
    os._exit(rc)


if __name__ == "__main__":
    main()
