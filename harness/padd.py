"""C08 / C19: helpers.parallel_add against spec/ParallelAdd.tla.

spec -> code: TLC enumerates the terminal outcomes of a scenario (workers, items, callback
faults, a dying worker); each distinct dequeue assignment is replayed against the REAL
parallel_add/_worker/_fill_queue/parallel_merging code and real shared-memory sketches under
the deterministic in-process scheduler (fakemp); outcome, n_records and the returned sketches
are compared with the specification (the sketches through the sketch-level trace specs, with
the ghost truth of the whole stream).
code -> spec: real spawned runs record which process handled which item; TLC checks that the
recorded assignment leads, in the specification, to the recorded outcome."""
import glob
import json
import logging
import os
import random
import shutil
import tempfile
import time

import numpy as np

import common
from common import run_tlc, workdir, MachineryError, write_cfg
import impl
from impl import big, kb
import fakemp
import padd_cb
import cm_linear
import hh as hhmod
import hll as hllmod

logging.disable(logging.CRITICAL)

FAULT_SETS = {0: {}, 1: {2: "after", 3: "before"}, 2: {1: "before"}, 3: "alt"}

CFG = """SPECIFICATION {spec}
CONSTANTS
  N = {N}
  K = {K}
  FaultSel = {FaultSel}
  DieSel <- {Die}
  Fault <- MFault
  DieAt <- MDie
  Assign <- {Assign}
  Ret <- MRet
  MergerDies = {MergerDies}
  RecSt = "{RecSt}"
  RecNrec = {RecNrec}
CHECK_DEADLOCK TRUE
"""
SAFETY = ["ExactlyOnce", "ResultIsWholeStream", "RaiseKeepsOthers", "DeathNeverReturns", "MergerDeathNeverReturns", "QueueBounded"]


def fault_of(sel, K):
    f = FAULT_SETS[sel]
    if f == "alt":
        return {i: ("after" if i % 2 == 0 else "before") for i in range(1, K + 1)}
    return {i: f.get(i, "ok") for i in range(1, K + 1)}


def die_name(die):
    return "NoDie" if die is None else "Die%d%d" % die


def model_check(report, N, K, fault_sel, die, liveness=True, outcomes=False, tag="pa", merger_dies=0):
    """Safety (+ liveness under weak fairness) of one scenario; optionally the terminal outcomes."""
    base = CFG.format(spec="FairSpec" if liveness else "Spec", N=N, K=K, FaultSel=fault_sel, Die=die_name(die),
                      Assign="NoAssign", RecSt="none", RecNrec=0, MergerDies=merger_dies)
    invs = list(SAFETY) + (["TerminalOutcome"] if outcomes else [])
    cfg = write_cfg("pa_%s.cfg" % tag, base, invs, ["Termination"] if liveness else [])
    r = run_tlc("MC_ParallelAdd", cfg, workers=16, tag=tag)
    inst = "ParallelAdd N=%d K=%d faults=%s die=%s merger_dies=%s liveness=%s" % (N, K, fault_sel, die, merger_dies, liveness)
    report.add_tlc("MC_ParallelAdd", r, inst)
    if not r.ok:
        report.violation("model: %s %s violated on %s" % (r.kind, r.violated, inst),
                         {"kind": "model", "module": "MC_ParallelAdd", "violated": r.violated,
                          "last_state": r.last_state, "signature": {"model": r.violated}})
        return []
    outs = []
    if outcomes:
        seen = set()
        for p in r.prints:
            if p.startswith('<<"OUTCOME"'):
                key = common.tla_string_payloads(p)[1]
                if key not in seen:
                    seen.add(key)
                    outs.append(json.loads(key))
    return outs


LOG_INVS = ["NoLogLost", "LoggerKilledOnDeath", "OrphanOnlyByMergerDeath", "MergerDeathLeavesLogger"]


def logchannel_check(report, N, K, fault_sel, die, merger_dies=0, tag="lc"):
    """Specification growth (spec/LogChannel.tla): ParallelAdd extended with the log process and its queue.
    The extension refines ParallelAdd; no message is lost before a return; the log process is killed on a
    worker's death and is left running exactly when a merge process dies.  Returns the terminal
    (outcome, logger state) pairs."""
    base = CFG.format(spec="LFairSpec", N=N, K=K, FaultSel=fault_sel, Die=die_name(die),
                      Assign="NoAssign", RecSt="none", RecNrec=0, MergerDies=merger_dies)
    cfg = write_cfg("lc_%s.cfg" % tag, base, list(SAFETY) + LOG_INVS + ["LTerminalOutcome"], ["BaseSpec", "LTermination"])
    r = run_tlc("LogChannel", cfg, workers=16, tag=tag)
    inst = "LogChannel N=%d K=%d faults=%s die=%s merger_dies=%s (refinement of ParallelAdd, liveness)" % (N, K, fault_sel, die, merger_dies)
    report.add_tlc("LogChannel", r, inst)
    if not r.ok:
        report.violation("model: %s %s violated on %s" % (r.kind, r.violated, inst),
                         {"kind": "model", "module": "LogChannel", "violated": r.violated,
                          "last_state": r.last_state, "signature": {"model": r.violated}})
        return []
    outs = set()
    for p in r.prints:
        if p.startswith('<<"LOGOUTCOME"'):
            d = json.loads(common.tla_string_payloads(p)[1])
            outs.add((d["st"], d["logger"]))
    return sorted(outs)


# ------------------------------------------------------------------ items and sketches

CMS_ARGS = {"cms_type": "linear", "width": 4, "depth": 2}
CMS_LOG_ARGS = {"cms_type": "log8", "width": 4, "depth": 2, "max_count": 5000, "num_reserved": 30}
HH_ARGS = {"width": 2, "depth": 2, "max_key_len": 4}
HLL_ARGS = {"p": 7, "seed": 3}
KEYS = [b"a", b"b", b"\x00", b"a\x00", b"abcde", b"", b"zz"]


def make_items(K, faults, rng):
    items = []
    for i in range(1, K + 1):
        # some items are records without keys (the callback returns a count but adds nothing)
        ops = [[rng.choice(KEYS), rng.choice([1, 1, 2, 5])] for _ in range(rng.choice([0, 1, 1, 2, 3]))]
        items.append({"id": i, "ops": ops, "fault": faults[i], "ret": i})
    return items


def merge_tree(n):
    """The (into, from) slot pairs of parallel_merging for n sketches, 0-based."""
    arr = list(range(n))
    pairs = []
    while len(arr) > 1:
        nxt = []
        for j in range(0, len(arr), 2):
            if j + 1 < len(arr):
                pairs.append((arr[j], arr[j + 1]))
            nxt.append(arr[j])
        arr = nxt
    return pairs


def sketch_traces(items, per_worker, flushed, N, result, which):
    """Express the run as sketch-level traces: one slot per worker, each worker's adds in its
    order, the n_records written at the pill, the merge rounds; only the FINAL state of slot 1
    (the returned sketch) is recorded."""
    by_id = {it["id"]: it for it in items}
    traces = {}
    if "cms" in which:
        rec = cm_linear.LinRecorder(CMS_ARGS["width"], CMS_ARGS["depth"], N, None)
        ev = []
        for w in range(N):
            for iid in per_worker[w]:
                for key, mult in by_id[iid]["ops"]:
                    rec.key(bytes(key))
                    ev.append({"ev": "add", "s": w + 1, "k": kb(key), "v": big(mult)})
            ev.append({"ev": "add_records", "s": w + 1, "n": big(flushed[w])})
        for a, b in merge_tree(N):
            ev.append({"ev": "merge", "s": a + 1, "t": b + 1})
        ev[-1]["post"] = [impl.proj_linear(result["cms"])]
        t = rec.trace()
        t["events"] = ev
        traces["cms"] = t
    if "hh" in which:
        rec = hhmod.HHRecorder(HH_ARGS["width"], HH_ARGS["depth"], HH_ARGS["max_key_len"], N)
        ev = []
        for w in range(N):
            for iid in per_worker[w]:
                for key, mult in by_id[iid]["ops"]:
                    rec.ident(bytes(key))
                    ev.append({"ev": "add", "s": w + 1, "k": kb(key), "v": big(mult)})
            ev.append({"ev": "add_records", "s": w + 1, "n": big(flushed[w])})
        for a, b in merge_tree(N):
            ev.append({"ev": "merge", "s": a + 1, "t": b + 1})
        ev[-1]["post"] = [hhmod.proj_hh(result["hh"])]
        t = rec.trace()
        t["events"] = ev
        traces["hh"] = t
    if "hll" in which:
        ev = []
        for w in range(N):
            for iid in per_worker[w]:
                for key, _mult in by_id[iid]["ops"]:
                    ev.append({"ev": "add", "s": w + 1, "k": kb(key)})
        for a, b in merge_tree(N):
            ev.append({"ev": "merge", "s": a + 1, "t": b + 1})
        if not ev:
            ev.append({"ev": "query", "s": 1, "out": "0x0.0p+0", "fresh": "0x0.0p+0"})
        ev[-1]["post"] = [hllmod.proj_hll(result["hll"])]
        traces["hll"] = {"p": HLL_ARGS["p"], "seed": list(int(HLL_ARGS["seed"]).to_bytes(8, "little")), "NS": N,
                         "events": ev}
    return traces


TYPES = {"cms": impl.countmin.CountMinLinear, "hh": impl.heavyhitters.HeavyHitters, "hll": impl.hyperloglog.HyperLogLog}


def unpack(res, which):
    """parallel_add returns the sketches in alphabetical order cms, hh, hll (a single sketch bare).
    Returns None when the returned value does not have that shape."""
    order = [x for x in ("cms", "hh", "hll") if x in which]
    vals = (res,) if len(order) == 1 else res
    if not isinstance(vals, tuple) or len(vals) != len(order):
        return None
    out = dict(zip(order, vals))
    for k, v in out.items():
        if not isinstance(v, TYPES[k]):
            return None
    return out


def sequential_hll(items, ids):
    sk = impl.hyperloglog.HyperLogLog(**HLL_ARGS)
    for it in items:
        if it["id"] in ids:
            for key, _m in it["ops"]:
                sk.add(bytes(key))
    return sk


class Batch:
    """Collects sketch-level traces of many runs and validates them in three TLC runs."""

    def __init__(self):
        self.t = {"cms": [], "hh": [], "hll": []}

    def add(self, traces):
        for k, v in traces.items():
            self.t[k].append(v)

    def validate(self, report, tag):
        ok = True
        if self.t["cms"]:
            ok &= cm_linear.validate(report, self.t["cms"], ["Lower", "Upper", "NAdded", "CellsBelowCap"], [],
                                     tag=tag + "cms")
        if self.t["hh"]:
            ok &= hhmod.validate(report, self.t["hh"], ["NoOver", "NoGhost", "Dominant", "NAddedHH"], [], tag=tag + "hh")
        if self.t["hll"]:
            ok &= hllmod.validate(report, self.t["hll"], ["UnionSemantics"], tag=tag + "hll")
        return ok


def replay_outcome(report, N, K, fault_sel, die, out, rng, which, batch, kill_merger=0):
    """Replay one terminal outcome of the specification against the real code."""
    faults = fault_of(fault_sel, K)
    items = make_items(K, faults, rng)
    assign = [w - 1 for w in out["assign"]]
    sseed = rng.choice([None, rng.randrange(10**6), rng.randrange(10**6)])
    late = bool(die) and rng.random() < 0.5
    # sometimes the count-min sketch is a log sketch with non-default parameters (all counts of the
    # stream stay inside its reserved range, so it is deterministic)
    cms_log = "cms" in which and rng.random() < 0.3
    cms_args = dict(CMS_LOG_ARGS) if cms_log else dict(CMS_ARGS)
    expect_params = {"CountMinLog8": {"max_count": 5000, "num_reserved": 30, "width": 4, "depth": 2},
                     "CountMinLinear": {"width": 4, "depth": 2},
                     "HeavyHitters": {"width": 2, "depth": 2, "max_key_len": 4}, "HyperLogLog": {"p": 7, "seed": 3}}
    old_init = fakemp.Sched.__init__

    def init(self, *a, **k):
        old_init(self, *a, **k)
        padd_cb.CTL = (self, ((die[0] - 1, die[1], "late") if late else (die[0] - 1, die[1])) if die else None, {})
    fakemp.Sched.__init__ = init
    try:
        # some well-behaved items have no text form (str() raises): they must be queued all the same.  (Only
        # items the callback accepts: the worker's error message formats the failing item.)
        idx = [padd_cb.SilentInt(i) if it["fault"] == "ok" and rng.random() < 0.3 else i for i, it in enumerate(items)]
        outcome, res, sched = fakemp.run_parallel_add(
            idx, padd_cb.cb, N, table=items, expect_params=expect_params,
            cms_args=cms_args if "cms" in which else None,
            hh_args=dict(HH_ARGS) if "hh" in which else None,
            hll_args=dict(HLL_ARGS) if "hll" in which else None, assign=assign,
            sched_seed=sseed, kill_merger=kill_merger,
            tag="tag-%d" % len(which), expect=len(which))
    finally:
        fakemp.Sched.__init__ = old_init
        padd_cb.CTL = None
    scen = {"N": N, "K": K, "faults": {str(k): v for k, v in faults.items() if v != "ok"}, "die": die,
            "assign": out["assign"], "sketches": sorted(which), "scheduler_seed": sseed, "late_death": late, "cms_is_log8": cms_log, "merger_killed": kill_merger}
    report.count_action("replay:" + out["st"])

    def bad(msg):
        report.violation("parallel_add replay %s: %s" % (json.dumps(scen), msg),
                         {"kind": "padd", "scenario": scen, "items": [dict(i, ops=[[list(k), m] for k, m in i["ops"]]) for i in items],
                          "signature": {"padd": out["st"], "die": bool(die)}})
        return False
    if outcome == "hang":
        return bad("the real code hangs (%s); specification terminates with '%s'" % (res, out["st"]))
    if outcome != out["st"]:
        return bad("real outcome '%s' (%r), specification '%s'" % (outcome, res if outcome == "raised" else "", out["st"]))
    # the log process (spec/LogChannel.tla): where the specification leaves it at the end of this outcome.
    # Compared for the record only -- no listed property speaks about the log process, so a difference is
    # noted in the evidence (spec_deviations) and never reported as a violation.
    lt = [t for t in sched.threads if t.name.startswith("_log_worker")]
    if lt:
        got_l = "killed" if lt[0].killed else "done" if lt[0].finished else "running"
        want_l = "done" if out["st"] == "returned" else ("running" if kill_merger else "killed")
        key = "%s/logger_%s" % (out["st"], got_l)
        lo = report.cov.setdefault("logger_outcomes", {})
        lo[key] = lo.get(key, 0) + 1
        if got_l != want_l and len(report.cov.setdefault("spec_deviations", [])) < 5:
            report.cov["spec_deviations"].append("log process %s where LogChannel.tla has %s (%s)" % (got_l, want_l, json.dumps(scen)[:300]))
    deqs = [(w, i) for kind, w, i in sched.log if kind == "deq"]
    got_assign = [w + 1 for w, _i in deqs]
    if outcome == "returned":
        if got_assign != out["assign"]:
            return bad("dequeues went to workers %s" % got_assign)
        result = unpack(res, which)
        if result is None:
            return bad("parallel_add returned %r for sketches %s (expected cms, hh, hll in that order)" % (res, sorted(which)))
        per_worker = {w: [i for ww, i in deqs if ww == w and i is not None] for w in range(N)}
        # items whose contribution the run must hold: ok items and (in this callback) raise-after items
        held = set(out["bag"]) | set(out["part"])
        contributed = {w: [i for i in per_worker[w] if i in held] for w in range(N)}
        flushed = {w: sum(it["ret"] for it in items if it["id"] in per_worker[w] and it["fault"] == "ok") for w in range(N)}
        for name in ("cms", "hh"):
            if name in result:
                nrec = int(result[name].n_records())
                if nrec != out["nrec"]:
                    return bad("%s.n_records() = %d, specification %d" % (name, nrec, out["nrec"]))
                total = sum(m for it in items if it["id"] in held for _k, m in it["ops"])
                if int(result[name].n_added()) != total:
                    return bad("%s.n_added() = %d, total multiplicity added %d" % (name, int(result[name].n_added()), total))
        if "hll" in result:
            seq = sequential_hll(items, held)
            if not np.array_equal(seq.registers, result["hll"].registers):
                return bad("returned HyperLogLog differs from the sequentially built sketch")
            if float(seq.query()) != float(result["hll"].query()):
                return bad("HyperLogLog.query() differs from the sequential result")
        if cms_log:
            sk = result["cms"]
            if type(sk).__name__ != "CountMinLog8" or int(sk.max_count) != 5000 or int(sk.num_reserved) != 30:
                return bad("returned count-min sketch is %s(max_count=%s, num_reserved=%s)" % (
                    type(sk).__name__, getattr(sk, "max_count", "-"), getattr(sk, "num_reserved", "-")))
            truth = {}
            for it in items:
                if it["id"] in held:
                    for k, m in it["ops"]:
                        truth[bytes(k)] = truth.get(bytes(k), 0) + m
            for k, v in truth.items():
                if v <= 30 and float(sk.query(k)) < v:       # inside the reserved range: never below the truth
                    return bad("log count-min estimate %r for %r below its true count %d" % (float(sk.query(k)), k, v))
        batch.add(sketch_traces(items, contributed, flushed, N, result, which - ({"cms"} if cms_log else set())))
        del result, res
    report.cov["traces_validated_against_impl"] += 1
    report.cov["evaluations"] += 1
    return True


# ------------------------------------------------------------------- real spawned runs

def real_run(N, K, fault_sel, die_item, rng, which, generator=False, timeout_s=600):
    """One real parallel_add with spawned processes.  Returns a record of what happened."""
    faults = fault_of(fault_sel, K)
    items = make_items(K, faults, rng)
    logdir = tempfile.mkdtemp(dir=workdir())
    here = os.path.dirname(os.path.abspath(__file__))
    os.environ["PYTHONPATH"] = os.pathsep.join([here, common.REPO] + [p for p in os.environ.get("PYTHONPATH", "").split(os.pathsep) if p])
    os.environ["PYTHONWARNINGS"] = "ignore"
    idx = list(range(len(items)))
    src = (i for i in idx) if generator else idx
    t0 = time.time()
    try:
        res = impl.helpers.parallel_add(src, padd_cb.cb, N,
                                        cms_args=dict(CMS_ARGS) if "cms" in which else None,
                                        hh_args=dict(HH_ARGS) if "hh" in which else None,
                                        hll_args=dict(HLL_ARGS) if "hll" in which else None,
                                        logdir=logdir, die_item=die_item, tag="tag-%d" % len(which), expect=len(which),
                                        table=items)
        outcome, exc = "returned", None
    except Exception as e:
        res, outcome, exc = None, "raised", e
    wall = time.time() - t0
    # never leave spawned children behind (e.g. the log process after an early exception)
    import multiprocessing
    for ch in multiprocessing.active_children():
        try:
            ch.kill()
            ch.join(5)
        except Exception:
            pass
    per_pid = {}
    for f in sorted(glob.glob(os.path.join(logdir, "deq.*"))):
        per_pid[int(f.rsplit(".", 1)[1])] = [int(x) for x in open(f).read().split()]
    shutil.rmtree(logdir, ignore_errors=True)
    return {"N": N, "K": K, "fault_sel": fault_sel, "die_item": die_item, "items": items, "outcome": outcome,
            "exc": repr(exc)[:300] if exc else None, "res": res, "per_pid": per_pid, "wall": wall,
            "generator": generator, "which": which}


def validate_real(report, run, batch, tag):
    """The recorded assignment must lead, in the specification, to the recorded outcome."""
    N, K = run["N"], run["K"]
    items = run["items"]
    pids = sorted(run["per_pid"])
    scen = {"N": N, "K": K, "fault_sel": run["fault_sel"], "die_item": run["die_item"], "generator": run["generator"],
            "outcome": run["outcome"], "exc": run["exc"], "wall_s": round(run["wall"], 1)}

    def bad(msg, sig):
        report.violation("real spawned parallel_add %s: %s" % (json.dumps(scen), msg),
                         {"kind": "padd_real", "scenario": scen, "signature": sig})
        return False
    report.count_action("real:" + run["outcome"])
    if run["die_item"] is not None:
        # C19b: a dead worker must end in an exception, never in a result
        if run["outcome"] != "raised":
            return bad("a worker died (os._exit on item %d) but parallel_add returned a result" % run["die_item"],
                       {"padd_real": "death_returned"})
        report.cov["traces_validated_against_impl"] += 1
        report.cov["evaluations"] += 1
        return True
    if run["outcome"] != "returned":
        return bad("parallel_add raised %s" % run["exc"],
                   {"padd_real": "raised", "generator": run["generator"]})
    if len(pids) > N:
        return bad("%d processes handled items, n_workers=%d" % (len(pids), N), {"padd_real": "pids"})
    widx = {pid: i + 1 for i, pid in enumerate(pids)}
    owner = {}
    for pid, ids in run["per_pid"].items():
        for i in ids:
            if i in owner:
                return bad("item %d was processed twice" % i, {"padd_real": "twice"})
            owner[i] = widx[pid]
    if set(owner) != set(range(1, K + 1)):
        return bad("items processed: %s of 1..%d" % (sorted(owner), K), {"padd_real": "missing"})
    assign = [owner[i] for i in range(1, K + 1)] + list(range(1, N + 1))
    result = unpack(run["res"], run["which"])
    if result is None:
        return bad("parallel_add returned %r for sketches %s" % (run["res"], sorted(run["which"])), {"padd_real": "shape"})
    nrecs = {int(result[n].n_records()) for n in ("cms", "hh") if n in result}
    if len(nrecs) > 1:
        return bad("cms and hh disagree on n_records: %s" % nrecs, {"padd_real": "nrec"})
    nrec = nrecs.pop() if nrecs else sum(it["ret"] for it in items if it["fault"] == "ok")
    mod = "MCgen_%s" % tag
    base = CFG.format(spec="Spec", N=N, K=K, FaultSel=run["fault_sel"], Die="NoDie", Assign="RecAssign",
                      RecSt="returned", RecNrec=nrec, MergerDies=0)
    # the recorded assignment enters as a definition of a generated root module
    with open(os.path.join(common.SPEC, mod + ".tla"), "w") as f:
        f.write("---- MODULE %s ----\nEXTENDS MC_ParallelAdd\nRecAssign == <<%s>>\n====\n" % (mod, ", ".join(map(str, assign))))
    try:
        cfg = write_cfg("pa_%s.cfg" % tag, base, SAFETY + ["RecordedOutcome"], [])
        r = run_tlc(mod, cfg, workers=4, tag=tag)
    finally:
        os.unlink(os.path.join(common.SPEC, mod + ".tla"))
    report.add_tlc("MC_ParallelAdd (recorded assignment)", r, json.dumps(scen))
    if not r.ok:
        return bad("the recorded run is not a behaviour of ParallelAdd.tla: %s %s violated (assignment %s, n_records %d)"
                   % (r.kind, r.violated, assign, nrec), {"padd_real": "not_a_behaviour"})
    held = {it["id"] for it in items if it["fault"] in ("ok", "after")}
    if "hll" in result:
        seq = sequential_hll(items, held)
        if not np.array_equal(seq.registers, result["hll"].registers):
            return bad("returned HyperLogLog differs from the sequentially built sketch", {"padd_real": "hll"})
    for name in ("cms", "hh"):
        if name in result:
            total = sum(m for it in items if it["id"] in held for _k, m in it["ops"])
            if int(result[name].n_added()) != total:
                return bad("%s.n_added() = %d, total multiplicity %d" % (name, int(result[name].n_added()), total),
                           {"padd_real": "n_added"})
    per_worker = {w - 1: [i for i in range(1, K + 1) if owner[i] == w and i in held] for w in range(1, N + 1)}
    flushed = {w - 1: sum(it["ret"] for it in items if owner[it["id"]] == w and it["fault"] == "ok") for w in range(1, N + 1)}
    tr = sketch_traces(items, per_worker, flushed, N, result, run["which"])
    if "hh" in tr:
        # the merge order of a real run is not observable and heavy-hitter merges are order
        # dependent: evaluate the invariants on the observed result against the whole stream
        truth = {}
        L = HH_ARGS["max_key_len"]
        for it in items:
            if it["id"] in held:
                for k, m in it["ops"]:
                    truth[bytes(k)[:L]] = truth.get(bytes(k)[:L], 0) + m
        t = tr["hh"]
        t["events"] = [{"ev": "observe", "s": 1, "state": hhmod.proj_hh(result["hh"]),
                        "truth": [[kb(k), big(v)] for k, v in truth.items()]}]
    batch.add(tr)
    report.cov["traces_validated_against_impl"] += 1
    report.cov["evaluations"] += 1
    return True



def composition_check(report, N):
    """Sketchnu.tla: ParallelAdd composed with concrete CMLin sketches; Refinement + safety."""
    base = open(os.path.join(common.SPEC, "MC_Sketchnu.cfg")).read().replace("  N = 2", "  N = %d" % N)
    cfg = write_cfg("sketchnu_%d.cfg" % N, base, [], [])
    r = run_tlc("MC_Sketchnu", cfg, workers=16, tag="sketchnu%d" % N)
    report.add_tlc("MC_Sketchnu (parallel_add over concrete linear sketches, N=%d K=4, all placements)" % N, r)
    if not r.ok:
        report.violation("model: %s %s violated in the composition Sketchnu.tla" % (r.kind, r.violated),
                         {"kind": "model", "module": "MC_Sketchnu", "violated": r.violated,
                          "signature": {"model": r.violated}})



def direct_merging(report, rng, N, batch):
    """helpers.parallel_merging called directly on N shared-memory HyperLogLogs holding a partitioned key
    set: the result must be the union (validated by the HyperLogLog trace spec, merge tree included)."""
    sks = [impl.hyperloglog.HyperLogLog(HLL_ARGS["p"], HLL_ARGS["seed"], shared_memory=True) for _ in range(N)]
    ev = []
    for w, sk in enumerate(sks):
        for _ in range(rng.randint(0, 4)):
            key = bytes(rng.randrange(256) for _ in range(rng.randint(0, 9)))
            sk.add(key)
            ev.append({"ev": "add", "s": w + 1, "k": kb(key)})
    outcome, res, _sched = fakemp.run_under_scheduler(lambda lq: impl.helpers.parallel_merging(sks, lq),
                                                      sched_seed=rng.choice([None, rng.randrange(10**6)]))
    if outcome != "returned" or not isinstance(res, impl.hyperloglog.HyperLogLog):
        report.violation("parallel_merging of %d HyperLogLogs: %s %r" % (N, outcome, res),
                         {"kind": "padd", "signature": {"padd": "direct_merging"}})
        return False
    for a, b in merge_tree(N):
        ev.append({"ev": "merge", "s": a + 1, "t": b + 1})
    if not ev:
        ev.append({"ev": "query", "s": 1, "out": "0x0.0p+0", "fresh": "0x0.0p+0"})
    ev[-1]["post"] = [hllmod.proj_hll(res)]
    batch.add({"hll": {"p": HLL_ARGS["p"], "seed": list(int(HLL_ARGS["seed"]).to_bytes(8, "little")), "NS": N, "events": ev}})
    report.count_action("direct_parallel_merging")
    del sks, res
    return True
