"""CountMinLog8 / CountMinLog16: model checking, trace validation with placed draws, bulk
validation of single counter transitions and merge cells against spec/CMLog.tla."""
import json
import math
import os
import random
from fractions import Fraction

import numpy as np

import common
from common import run_tlc, workdir, MachineryError, write_cfg
import impl
from impl import kb

MODULE_MC = "MC_CountMinLog"
MODULE_TR = "Trace_CountMinLog"

MC_CONSTS = """SPECIFICATION Spec
CONSTANTS
  NAdd <- IntAdd
  NSub <- IntSub
  NLt <- IntLt
  NOf <- IntOf
  MW = {W}
  MD = {D}
  MUMax = {UMax}
  MNR = {NR}
  MSlots = {Slots}
  MaxTruth = {MaxTruth}
  B = {B}
  Slots <- MSlotSet
  EnvChoices <- MEnvChoices
  AddVals <- MAddVals
  DrawVals <- MDrawVals
  MTol <- ZeroTol
VIEW view
CONSTRAINT Bound
CHECK_DEADLOCK FALSE
"""
TR_CONSTS = """SPECIFICATION TSpec
CONSTANTS
  NAdd <- DigAdd
  NSub <- DigSub
  NLt <- DigLt
  NOf <- DigOf
  Slots <- TSlots
  EnvChoices = {}
  AddVals = {}
  DrawVals = {}
  B <- TB
  MTol <- RelTol
CHECK_DEADLOCK TRUE
INVARIANT TraceOK
"""
CALLS_CFG = """SPECIFICATION TSpec
CONSTANTS
  NAdd <- DigAdd
  NSub <- DigSub
  NLt <- DigLt
  NOf <- DigOf
INVARIANT TraceOK
CHECK_DEADLOCK TRUE
"""
INV_C06 = ["LowerLog", "ReservedExact", "Fresh"]
PROP_C06 = ["FreshProp"]
PROP_C05 = ["AddEffectLogProp"]
PROP_C18 = ["MonotoneLogProp"]
PROP_C09 = ["MergeEffectLogProp"]

UMAX = {"log8": 255, "log16": 65535}
CLS = {"log8": impl.countmin.CountMinLog8, "log16": impl.countmin.CountMinLog16}
DB = 1 << 30


def model_check(report, invs, props, W=2, D=1, UMax=4, NR=1, Slots=2, MaxTruth=4, B=2, tag="log"):
    cfg = write_cfg("mc_%s.cfg" % tag, MC_CONSTS.format(W=W, D=D, UMax=UMax, NR=NR, Slots=Slots,
                                                        MaxTruth=MaxTruth, B=B), invs, props)
    r = run_tlc(MODULE_MC, cfg, tag=tag)
    inst = "CountMinLog dyadic base 2, UMax=%d NR=%d W=%d D=%d slots=%d batch=%d truth<=%d" % (
        UMax, NR, W, D, Slots, B, MaxTruth)
    report.add_tlc(MODULE_MC, r, inst)
    if not r.ok:
        report.violation("model: %s %s violated on %s" % (r.kind, r.violated, inst),
                         {"kind": "model", "module": MODULE_MC, "violated": r.violated,
                          "last_state": r.last_state, "signature": {"model": r.violated}})
    return r


# ------------------------------------------------------------- exact number encoding

def digits(n):
    """non-negative int -> DigNum (little-endian base 2^30, normalised)."""
    n = int(n)
    if n < 0:
        raise MachineryError("negative number in DigNum encoding")
    out = []
    while n:
        out.append(n & (DB - 1))
        n >>= 30
    return out


def scale_floats(xs):
    """Exact common scaling of float64 values: returns (S, [int(x * 2^S)])."""
    for x in xs:
        if not math.isfinite(float(x)):
            # every value encoded here is finite on a correct tree (decoded counters, probabilities,
            # draws, estimates): a NaN or infinity comes from the implementation under test
            raise common.ImplMisbehaved("the implementation produced the non-finite value %r" % (x,))
    fr = [Fraction(float(x)) for x in xs]
    S = 0
    for f in fr:
        S = max(S, f.denominator.bit_length() - 1)
    out = []
    for f in fr:
        v = f * (1 << S)
        if v.denominator != 1:
            raise MachineryError("inexact scaling of %r" % f)
        out.append(int(v))
    return S, out


class LogConfig:
    """A (class, max_count, num_reserved) configuration as the implementation realises it."""

    def __init__(self, kind, max_count, nr):
        self.kind, self.max_count, self.nr = kind, int(max_count), int(nr)
        self.umax = UMAX[kind]
        probe = CLS[kind](1, 1, max_count, nr)
        self.base = float(probe.base)

    def decode(self, c):
        """The implementation's own decode of counter c."""
        return float(impl.countmin._counter2value(np.uint16(c), np.uint16(self.nr), self.base))

    def closed_form(self, c):
        if c <= self.nr:
            return float(c)
        b = self.base
        return (b ** float(c - self.nr) - 1.0) / (b - 1.0) + float(self.nr)

    def prob(self, k):
        """increment probability of a counter holding nr + k (CPython pow: the oracle)."""
        return self.base ** (-float(k))

    def new(self, W, D):
        return CLS[self.kind](W, D, self.max_count, self.nr)


def check_decode_table(report, cfgs, counters_of):
    """The observed decode equals the closed formula (relative 1e-9) and rises by base^(c-NR)."""
    for cf in cfgs:
        for c in counters_of(cf):
            got, exp = cf.decode(c), cf.closed_form(c)
            if not math.isclose(got, exp, rel_tol=1e-9, abs_tol=1e-9):
                report.violation("decode of counter %d is %r, closed formula %r (%s max_count=%d nr=%d)" %
                                 (c, got, exp, cf.kind, cf.max_count, cf.nr),
                                 {"kind": "decode", "signature": {"decode": cf.kind}})
                return False
    return True


# -------------------------------------------------------------------------- traces

def proj_log(sk):
    return {"tbl": [[int(x) for x in row] for row in sk.cms.tolist()],
            "nadd": digits(sk.n_added_records[0]), "nrec": digits(sk.n_added_records[1])}


class LogRecorder:
    def __init__(self, cf, W, D, NS, rng):
        self.cf, self.W, self.D, self.NS, self.rng = cf, W, D, NS, rng
        self.slots = [cf.new(W, D) for _ in range(NS)]
        # every batch of draws any sketch ever holds must be a new one: sketches created in the same
        # process (or loaded) must not share their random batches
        self.batches = set()
        # the size of the random batch is the implementation's business: read from the object
        self.B = int(len(self.slots[0].rand_nums))
        self.init_fresh = all(self.new_batch(sk) for sk in self.slots)
        self.keys = {}
        self.events = []
        self.need_val = {0, cf.nr, min(cf.nr + 1, cf.umax), cf.umax, cf.umax - 1}
        self.need_p = {0}
        self.floats_draw = []       # all draw floats (for the common scale)
        # a sketch may start with its pointer past the beginning of the batch (e.g. at the end: the first draw
        # fills the buffer); the specification's pointer starts at 0 and skips there
        for i, sk in enumerate(self.slots):
            if int(sk.rand_ptr) > 0:
                self.emit({"ev": "set_ptr", "s": i + 1, "p": int(sk.rand_ptr)},
                          ptr_as={j: 0 for j in range(i + 1, len(self.slots)) if int(self.slots[j].rand_ptr) > 0})

    def new_batch(self, sk):
        """True iff the sketch's current batch has never been seen in this history and lies in [0, 1)."""
        a = np.asarray(sk.rand_nums)
        if int(sk.rand_ptr) >= len(a):
            return True        # nothing of this buffer will ever be handed out (a lazily filled batch)
        d = a.tobytes()
        ok = d not in self.batches and bool(np.all(a >= 0.0) and np.all(a < 1.0)) and len(np.unique(a)) > 0.97 * len(a)
        self.batches.add(d)
        return ok

    def key(self, k):
        if k not in self.keys:
            self.keys[k] = impl.cm_cols(lambda: self.cf.new(self.W, self.D), k)
        return kb(k)

    def note_counters(self):
        for s in self.slots:
            for x in np.unique(s.cms):
                x = int(x)
                self.need_val.update({x, max(x - 1, 0), min(x + 1, self.cf.umax)})

    def emit(self, ev, ptr_as=None):
        self.note_counters()
        ev["post"] = [proj_log(s) for s in self.slots]
        ev["ptrs"] = [int(s.rand_ptr) for s in self.slots]
        for i, v in (ptr_as or {}).items():
            ev["ptrs"][i] = v
        self.events.append(ev)

    def set_ptr(self, s, p):
        sk = self.slots[s]
        if p < int(sk.rand_ptr):
            return
        sk.rand_ptr = int(p)
        self.emit({"ev": "set_ptr", "s": s + 1, "p": p})

    def add(self, s, k, v, place=None):
        """place: None (leave the generator's draws) or a function (k_index, P) -> draw used to
        overwrite the draws the call will see in the current batch."""
        self.key(k)
        sk = self.slots[s]
        cf = self.cf
        ptr0 = int(sk.rand_ptr)
        m = int(min(sk.cms[r, c - 1] for r, c in enumerate(self.keys[k])))
        for c in range(m, min(m + v, cf.umax) + 1):
            if c >= cf.nr:
                self.need_p.add(c - cf.nr)
        window_end = min(self.B, ptr0 + v)
        if place is not None:
            # simulate the v unit increments to know which position decides which counter
            c, i = m, ptr0
            for _ in range(v):
                if c >= cf.umax or i >= self.B:
                    break
                if c < cf.nr:
                    c += 1
                    continue
                u, succeed = place(c - cf.nr, cf.prob(c - cf.nr))
                sk.rand_nums[i] = u
                i += 1
                if succeed:
                    c += 1
        old = sk.rand_nums.copy()
        pre_draws = [float(x) for x in old[ptr0:window_end]]
        if v == 1:
            sk.add(k) if self.rng.random() < 0.3 else sk.add(k, 1)
        else:
            sk.add(k, v)
        ptr1 = int(sk.rand_ptr)
        refilled = not np.array_equal(old, sk.rand_nums)
        fresh_ok = True
        post_draws = []
        if refilled or ptr1 < ptr0:
            # the pointer wrapped: the draws consumed after the wrap are the first ptr1 entries of
            # the batch now in place (a batch that did not change is reported as not refilled)
            new = sk.rand_nums
            fresh_ok = bool(np.all(new >= 0.0) and np.all(new < 1.0) and np.all(new != old))
            post_draws = [float(x) for x in new[0:ptr1]]
        draws = pre_draws + post_draws
        self.floats_draw += draws
        self.emit({"ev": "add", "s": s + 1, "k": kb(k), "v": v, "draws_f": draws,
                   "refilled": refilled, "fresh_ok": fresh_ok, "ptr_before": ptr0})

    def add_big(self, s, k, v):
        """A multiplicity beyond 2^32 with every draw placed at 0 (each step succeeds): the counter runs to
        the ceiling and the call returns; n_added grows by the whole multiplicity."""
        self.key(k)
        sk = self.slots[s]
        cf = self.cf
        ptr0 = int(sk.rand_ptr)
        B = self.B
        if ptr0 + cf.umax + 2 > B:
            self.set_ptr(s, B)
            ptr0 = B
        if ptr0 == B:
            # the batch is exhausted: consume one ordinary unit add so that a fresh batch is in place
            self.add(s, k, 1)
            ptr0 = int(sk.rand_ptr)
            if ptr0 + cf.umax + 2 > B:
                # (a unit add inside the reserved range draws nothing, so the exhausted batch is still in
                # place and the draws of the big add could not be placed: skip it -- found with VERIF_SEED=7)
                return
        m = int(min(sk.cms[r, c - 1] for r, c in enumerate(self.keys[k])))
        for c in range(m, cf.umax + 1):
            if c >= cf.nr:
                self.need_p.add(c - cf.nr)
        n = cf.umax + 2
        sk.rand_nums[ptr0:ptr0 + n] = 0.0
        draws = [0.0] * n
        old = sk.rand_nums.copy()
        sk.add(k, v)
        refilled = not np.array_equal(old, sk.rand_nums)
        self.floats_draw += draws
        self.emit({"ev": "add_big", "s": s + 1, "k": kb(k), "v": min(v, cf.umax + 5), "vbig": digits(v), "draws_f": draws,
                   "refilled": refilled, "fresh_ok": True, "ptr_before": ptr0})

    def _batch(self, s, items, call, ev):
        """items: [(key, v)] the unit operations the call performs, in order."""
        sk = self.slots[s]
        cf = self.cf
        for k, _v in items:
            self.key(k)
        total = sum(v for _k, v in items)
        lo = int(sk.cms.min())
        for c in range(lo, min(lo + total, cf.umax) + 1):
            if c >= cf.nr:
                self.need_p.add(c - cf.nr)
        for c in np.unique(sk.cms):
            for d in range(int(c), min(int(c) + total, cf.umax) + 1):
                if d >= cf.nr:
                    self.need_p.add(d - cf.nr)
        ptr0 = int(sk.rand_ptr)
        old = sk.rand_nums.copy()
        pre = [float(x) for x in old[ptr0:min(self.B, ptr0 + total)]]
        call(sk)
        ptr1 = int(sk.rand_ptr)
        refilled = not np.array_equal(old, sk.rand_nums)
        fresh_ok, post = True, []
        if refilled or ptr1 < ptr0:
            new = sk.rand_nums
            fresh_ok = bool(np.all(new >= 0.0) and np.all(new < 1.0) and np.all(new != old))
            post = [float(x) for x in new[0:ptr1]]
        draws = pre + post
        self.floats_draw += draws
        ev.update({"s": s + 1, "draws_f": draws, "refilled": refilled, "fresh_ok": fresh_ok})
        self.emit(ev)

    def update_list(self, s, ks):
        self._batch(s, [(k, 1) for k in ks], lambda sk: sk.update(list(ks)),
                    {"ev": "update_list", "ks": [kb(k) for k in ks]})

    def update_dict(self, s, kvs):
        d = dict(kvs)
        self._batch(s, list(d.items()), lambda sk: sk.update(d),
                    {"ev": "update_dict", "kvs": [[kb(k), v] for k, v in d.items()]})

    @staticmethod
    def windows(key, n):
        if len(key) <= n:
            return [key]
        return [key[i:i + n] for i in range(len(key) - n + 1)]

    def add_ngram(self, s, key, n):
        self._batch(s, [(w, 1) for w in self.windows(key, n)], lambda sk: sk.add_ngram(key, n),
                    {"ev": "add_ngram", "key": kb(key), "n": n})

    def update_ngram(self, s, keys, n):
        items = [(w, 1) for key in keys for w in self.windows(key, n)]
        self._batch(s, items, lambda sk: sk.update_ngram(list(keys), n),
                    {"ev": "update_ngram", "keys": [kb(k) for k in keys], "n": n})

    def merge(self, s, t):
        a = self.slots[s].cms
        b = self.slots[t].cms
        for x in np.unique(a):
            self.need_val.add(int(x))
        for x in np.unique(b):
            self.need_val.add(int(x))
        try:
            self.slots[s].merge(self.slots[t])
        except TypeError as exc:
            if impl.STRICT_PERSIST:
                self.emit({"ev": "merge_refused", "s": s + 1, "t": t + 1, "exc": repr(exc)[:200]})
            return
        self.emit({"ev": "merge", "s": s + 1, "t": t + 1})

    def saveload(self, s, t, how=0):
        p = impl.tmpfile()
        try:
            self.slots[s].save(p)
            new = CLS[self.cf.kind].load(p) if how == 0 else impl.countmin.load(p)
            if type(new) is not CLS[self.cf.kind]:
                raise TypeError("load returned %r" % type(new))
        except Exception as exc:
            if impl.STRICT_PERSIST:
                self.emit({"ev": "saveload_failed", "s": s + 1, "t": t + 1, "exc": repr(exc)[:200]})
            return
        finally:
            if os.path.exists(p):
                os.unlink(p)
        self.slots[t] = new
        p0 = int(new.rand_ptr)         # (> 0 for a lazily filled batch: the specification starts at 0 and skips there)
        self.emit({"ev": "saveload", "s": s + 1, "t": t + 1, "fresh_ok": self.new_batch(new)}, ptr_as={t: 0} if p0 else None)
        if p0:
            self.emit({"ev": "set_ptr", "s": t + 1, "p": p0})

    def add_records(self, s, n):
        self.slots[s].n_added_records[1] += np.uint64(n)
        self.emit({"ev": "add_records", "s": s + 1, "n": digits(n)})

    def query(self, s, k):
        self.key(k)
        out = float(self.slots[s].query(k)) if self.rng.random() < 0.5 else float(self.slots[s][k])
        self.emit({"ev": "query", "s": s + 1, "k": kb(k), "out_f": out})

    def trace(self):
        cf = self.cf
        vals = sorted(c for c in self.need_val if 0 <= c <= cf.umax)
        qouts = [e["out_f"] for e in self.events if e["ev"] == "query"]
        vfloats = [cf.decode(c) for c in vals] + [float(cf.max_count)] + qouts
        if float(cf.max_count) != cf.max_count and cf.max_count < 2**53:
            raise MachineryError("max_count not representable")
        _sv, vints = scale_floats(vfloats)
        ks = sorted(self.need_p)
        pf = [cf.prob(k) for k in ks]
        _sp, pints = scale_floats(pf + self.floats_draw)
        dmap = {}
        for f, i in zip(self.floats_draw, pints[len(ks):]):
            dmap[f] = i
        qmap = dict(zip(qouts, vints[len(vals) + 1:]))
        evs = []
        for e in self.events:
            e = dict(e)
            if "draws_f" in e:
                e["draws"] = [digits(dmap[f]) for f in e.pop("draws_f")]
            if e["ev"] == "query":
                e["out"] = digits(qmap[e.pop("out_f")])
            evs.append(e)
        return {"W": self.W, "D": self.D, "NS": self.NS, "B": self.B, "kind": cf.kind, "init_fresh": bool(self.init_fresh),
                "UMax": cf.umax, "NR": cf.nr, "max_count": str(cf.max_count),
                "MaxCount": digits(vints[len(vals)]),
                "Val": [[c, digits(v)] for c, v in zip(vals, vints)],
                "P": [[k, digits(v)] for k, v in zip(ks, pints)],
                "keys": [{"b": kb(k), "cols": c} for k, c in self.keys.items()],
                "events": evs}


def placer(mode, rng):
    """Draw placement relative to the decision boundary P."""
    def f(k, P):
        if P >= 1.0:
            return (rng.choice([0.0, 0.5, 1.0 - 2.0 ** -53]), True)
        m = mode if mode != "mix" else rng.choice(["lo", "below", "above", "hi"])
        if m == "lo":
            return (0.0, True)
        if m == "below":
            return (P * (1.0 - 1e-12), True)
        if m == "above":
            return (min(P * (1.0 + 1e-12), 1.0 - 2.0 ** -53), False)
        return (1.0 - 2.0 ** -53, False)
    return f


CONFIGS = [("log8", 2**32 - 1, 15), ("log16", 2**32 - 1, 1023), ("log8", 1000, 3), ("log8", 300, 0),
           ("log16", 10**6, 100), ("log8", 2**40, 15), ("log16", 70000, 5), ("log8", 5000, 30)]


def try_config(kind, mc, nr):
    """A LogConfig, or None when the constructor refuses the configuration (judged by C18 only)."""
    try:
        return LogConfig(kind, mc, nr)
    except ValueError:
        return None


def configs(report, specs, strict=False):
    """LogConfigs of the accepted configurations.  All of `specs` are valid (a base > 1 exists); a refusal is
    a violation for the check that owns constructor behaviour (strict) and a skipped configuration otherwise."""
    out = []
    for kind, mc, nr in specs:
        cf = try_config(kind, mc, nr)
        if cf is None:
            if strict:
                report.violation("the constructor refuses the valid configuration %s(max_count=%d, num_reserved=%d)" % (kind, mc, nr),
                                 {"kind": "ctor", "signature": {"ctor": "refused"}})
            report.cov.setdefault("skipped_configs", []).append([kind, str(mc), nr])
        else:
            out.append(cf)
    return out


def random_history(rng, focus=None, cfgs=None):
    kind, mc, nr = rng.choice(cfgs or CONFIGS)
    if focus in ("ceiling", "batchceil"):
        kind, mc, nr = rng.choice([("log8", 300, 0), ("log8", 1000, 3), ("log8", 5000, 30), ("log8", 1000, 15),
                                   ("log8", 300, 40), ("log8", 2000, 100)])
    cf = try_config(kind, mc, nr) or LogConfig("log8", 2**32 - 1, 15)
    W = rng.choice([1, 1, 2, 2, 3, 4, 8, 16])
    D = rng.choice([1, 1, 2, 3, 4])
    NS = rng.choice([1, 2, 2, 3])
    rec = LogRecorder(cf, W, D, NS, rng)
    pool = impl.special_keys(rng)
    keys = rng.sample(pool, rng.randint(2, 6))
    n = rng.randint(8, 24)
    if focus == "batchceil":
        # batch entry points on keys that are (driven) at the ceiling: few keys, saturated early
        keys = keys[:rng.randint(1, 3)]
        n = rng.randint(10, 20)
    for _ in range(n):
        s, t = rng.randrange(NS), rng.randrange(NS)
        k = rng.choice(keys)
        x = rng.random()
        if focus == "batchceil":
            y = rng.random()
            if y < 0.3:
                rec.add_big(s, k, rng.choice([2**32, 2**33 + 1]))
            elif y < 0.45:
                rec.update_list(s, [rng.choice(keys) for _ in range(rng.randint(1, 5))])
            elif y < 0.6:
                rec.update_dict(s, [(rng.choice(keys), rng.choice([1, 2, 25])) for _ in range(rng.randint(1, 3))])
            elif y < 0.75:
                rec.add(s, k, rng.choice([1, 3, 40]), placer("lo", rng))
            elif y < 0.85:
                key = rng.choice(keys)[:6]
                rec.add_ngram(s, key, rng.choice([1, 2, max(1, len(key)), len(key) + 1]))
            elif y < 0.93:
                rec.merge(s, t)
            else:
                rec.query(s, k)
            continue
        if focus == "refill" and rng.random() < 0.3:
            rec.set_ptr(s, rec.B - rng.choice([8, 3, 1, 0]))
            rec.add(s, k, rng.choice([1, 3, 12]), placer("lo", rng) if rng.random() < 0.5 else None)
            continue
        if focus == "ceiling" and rng.random() < 0.5:
            if rng.random() < 0.25:
                rec.add_big(s, k, rng.choice([2**32, 2**32 + 7, 2**33 + 1, 2**40]))
            else:
                rec.add(s, k, 40, placer("lo", rng))        # every draw succeeds: races to the ceiling
            continue
        if focus == "batch" and rng.random() < 0.7:
            y = rng.random()
            if y < 0.3:
                rec.update_list(s, [rng.choice(keys) for _ in range(rng.randint(0, 6))])
            elif y < 0.55:
                rec.update_dict(s, [(rng.choice(keys), rng.choice([1, 2, 3, 10, 25])) for _ in range(rng.randint(0, 4))])
            elif y < 0.85:
                key = rng.choice(keys + [b"abcabc", b"aaaa", b"\x00\x00\x00"])[:10]
                rec.add_ngram(s, key, rng.choice([1, 2, 3, max(1, len(key) - 1), max(1, len(key)), len(key) + 1, len(key) + 2]))
            else:
                rec.update_ngram(s, [rng.choice(keys)[:8] for _ in range(rng.randint(0, 3))], rng.choice([1, 2, 3]))
            continue
        if x < 0.5:
            v = rng.choice([0, 1, 1, 1, 2, 3, 5, 17, 40])
            mode = rng.choice([None, None, "mix", "lo", "hi", "below", "above"])
            rec.add(s, k, v, placer(mode, rng) if mode else None)
        elif x < 0.68:
            rec.merge(s, t)
        elif x < 0.76 and s != t:
            rec.saveload(s, t, rng.randrange(2))
        elif x < 0.80:
            rec.add_records(s, rng.choice([0, 1, 7]))
        elif x < 0.84:
            rec.set_ptr(s, min(rec.B, int(rec.slots[s].rand_ptr) + rng.choice([0, 1, 100, rec.B - 48])))
        else:
            rec.query(s, k)
    for s in range(NS):
        for k in list(rec.keys)[:4]:
            rec.query(s, k)
    return rec.trace()


def validate(report, traces, invs, props, tag="logtr"):
    return common.validate_traces(report, MODULE_TR, TR_CONSTS, traces, invs, props, tag, "cm_log")


# ------------------------------------------------------- bulk single-transition calls

def step_calls(cf, counters, rng):
    """For every counter c: one real unit add with the draw placed at 0, just below P, just
    above P and at 1-2^-53; records the resulting counter."""
    sk = cf.new(1, 1)
    key = b"k"
    calls = []
    for c in counters:
        k = c - cf.nr
        if c >= cf.umax or k < 0:
            draws = [0.5]
        else:
            P = cf.prob(k)
            draws = [0.0, 1.0 - 2.0 ** -53]
            if P < 1.0:
                draws += [P * (1.0 - 1e-12), min(P * (1.0 + 1e-12), 1.0 - 2.0 ** -53)]
        for u in draws:
            sk.cms[0, 0] = c
            sk.rand_ptr = 5
            sk.rand_nums[5] = u
            sk.rand_nums[4] = 1.0 - 2.0 ** -53 if u < 0.5 else 0.0      # a decoy before
            sk.rand_nums[6] = 1.0 - 2.0 ** -53 if u < 0.5 else 0.0      # and after the placed draw
            sk.add(key, 1)
            calls.append(("step", c, u, int(sk.cms[0, 0])))
    return calls


def merge_calls(cf, pairs):
    """Tables of both operands are set directly to enumerate counter pairs."""
    calls = []
    n = len(pairs)
    W = 256
    D = (n + W - 1) // W
    a = cf.new(W, D)
    b = cf.new(W, D)
    fa = a.cms.reshape(-1)
    fb = b.cms.reshape(-1)
    for i, (x, y) in enumerate(pairs):
        fa[i] = x
        fb[i] = y
    before_b = b.cms.copy()
    a.merge(b)
    if not np.array_equal(before_b, b.cms):
        calls.append(("merge", -1, -1, -1))          # the merged-in operand changed
    fr = a.cms.reshape(-1)
    for i, (x, y) in enumerate(pairs):
        calls.append(("merge", int(x), int(y), int(fr[i])))
    return calls


def calls_batch(cf, calls):
    """Encode a batch for Trace_LogCalls: dense tables, exact scaling."""
    vals = [cf.decode(c) for c in range(cf.umax + 1)] + [float(cf.max_count)]
    _s, vints = scale_floats(vals)
    nk = cf.umax - cf.nr + 1
    pf = [cf.prob(k) for k in range(nk)]
    us = sorted({c[2] for c in calls if c[0] == "step"})
    _s2, pints = scale_floats(pf + us)
    umap = dict(zip(us, pints[nk:]))
    enc = []
    for c in calls:
        if c[0] == "step":
            enc.append(["step", c[1], digits(umap[c[2]]), c[3]])
        else:
            enc.append(["merge", c[1], c[2], c[3]])
    return {"kind": cf.kind, "max_count": str(cf.max_count), "UMax": cf.umax, "NR": cf.nr,
            "MaxCount": digits(vints[-1]), "Val": [digits(v) for v in vints[:-1]],
            "P": [digits(v) for v in pints[:nk]], "calls": enc}


def validate_calls(report, batches, tag):
    if not batches:
        return True
    # the (large, dense) tables of a configuration are written once
    cfgs, index, slim = [], {}, []
    for b in batches:
        key = (b["kind"], b["max_count"], b["NR"], len(b["Val"]), len(b["P"]))
        if key not in index:
            cfgs.append({k: b[k] for k in ("UMax", "NR", "MaxCount", "Val", "P")})
            index[key] = len(cfgs)
        elif key[0] == "log8" or b["max_count"] == "grid":
            pass
        slim.append({"c": index[key], "calls": b["calls"]})
    path = os.path.join(workdir(), "logcalls_%s.json" % tag)
    with open(path, "w") as f:
        json.dump({"cfgs": cfgs, "batches": slim}, f)
    cfg = write_cfg("calls_%s.cfg" % tag, CALLS_CFG, [], [])
    r = run_tlc("Trace_LogCalls", cfg, env={"TRACE_FILE": path}, workers=16, tag=tag, timeout=3000)
    os.unlink(path)
    n = sum(len(b["calls"]) for b in batches)
    report.cov["states"] += r.distinct
    report.cov["transitions"] += r.generated
    report.cov["tlc_runs"].append({"name": "Trace_LogCalls", "batches": len(batches), "calls": n,
                                   "distinct_states": r.distinct, "wall_s": round(r.wall, 1)})
    if r.ok:
        report.cov["traces_validated_against_impl"] += n
        report.cov["evaluations"] += n
        for b in batches:
            for c in b["calls"]:
                report.count_action("call:" + c[0])
        return True
    tid = int(r.last_state.get("tid", "0"))
    b = batches[tid - 1] if 0 < tid <= len(batches) else None
    mism = [p for p in r.prints if p.startswith('<<"MISMATCH"')]
    detail = ""
    for p in mism:
        pl = common.tla_string_payloads(p)
        if pl:
            detail = pl[-1][:600]
    report.violation("log-counter transition rejected (%s max_count=%s nr=%s): %s" % (
        b and b["kind"], b and b["max_count"], b and b["NR"], detail),
        {"kind": "logcall", "config": {k: b[k] for k in ("kind", "max_count", "NR")} if b else None,
         "detail": detail, "signature": {"logcall": b["kind"] if b else "?"}})
    return False


def ctor_calls(kind, grid):
    """Constructor outcomes on a (max_count, num_reserved) grid: ValueError, or an accepted
    configuration whose maximum counter must decode to max_count (relative 1e-6)."""
    calls = []
    um = UMAX[kind]
    meta = []
    for mc, nr in grid:
        K, M = um - nr, mc - nr
        if K >= 2 and M > K and (M - K) * 100 < K:
            continue                      # ill-conditioned: max_count - nr within 1% of UMax - nr
        try:
            sk = CLS[kind](1, 1, mc, nr)
        except ValueError:
            calls.append(["ctor", 0, [], [], []])
            meta.append((mc, nr, "ValueError"))
            continue
        top = float(impl.countmin._counter2value(np.uint16(um), np.uint16(nr), sk.base))
        S, ints = scale_floats([top])
        mci = mc << S
        calls.append(["ctor", 1, digits(ints[0]), digits(mci), digits(mci // 10**6)])
        meta.append((mc, nr, top))
    return calls, meta


def ctor_batch(kind, calls):
    return {"kind": kind, "max_count": "grid", "UMax": 0, "NR": 0, "MaxCount": [], "Val": [[]], "P": [[]],
            "calls": calls}
