"""HeavyHitters: exhaustive model checking, trace validation and edge replay against
spec/HeavyHitters.tla."""
import json
import math
import os
import random

import numpy as np

import common
from common import run_tlc, workdir, MachineryError, write_cfg
import impl
from impl import big, kb, CAP32

MODULE_MC = "MC_HeavyHitters"
MODULE_TR = "Trace_HeavyHitters"

MC_CONSTS = """SPECIFICATION Spec
CONSTANTS
  NAdd <- IntAdd
  NSub <- IntSub
  NLt <- IntLt
  NOf <- IntOf
  NCap <- MCap
  MatchRule = "{Match}"
  MW = {W}
  MD = {D}
  ML = 2
  MCap = {Cap}
  MaxTruth = {MaxTruth}
  MSlots = {Slots}
  EnvIdx = {EnvIdx}
  EnvFromFile = {EnvFromFile}
  Slots <- MSlotSet
  EnvChoices <- MEnvChoices
  AddKeys <- MAddKeys
  AddVals <- {AddVals}
  Lists <- {Lists}
  Dicts <- {Dicts}
  NgramArgs <- {Ngrams}
  RecVals <- MRecVals
  QueryKs <- {QueryKs}
  QueryThrs <- {QueryThrs}
  PhiNum = 1
  PhiDen = {W}
VIEW view
CONSTRAINT Bound
CHECK_DEADLOCK FALSE
"""

TR_CONSTS = """SPECIFICATION TSpec
CONSTANTS
  NAdd <- DigAdd
  NSub <- DigSub
  NLt <- DigLt
  NOf <- DigOf
  NCap <- BigCap32
  MatchRule = "identity"
  Slots <- TSlots
  EnvChoices = {}
  AddKeys = {}
  AddVals = {}
  Lists = {}
  Dicts = {}
  NgramArgs = {}
  RecVals = {}
  QueryKs = {}
  QueryThrs = {}
  PhiNum = 1
  PhiDen = 1
CHECK_DEADLOCK TRUE
INVARIANT TraceOK
"""

INV_C03 = ["NoOverCell", "NoOver", "NoGhost", "CountsBelowCap"]
INV_C04 = ["Dominant", "MajorityFirst", "NAddedHH"]
INV_C13 = ["CacheCoherent"]
PROP_C13 = ["QueryAnswerProp"]
PROP_C18 = ["MonotoneAloneProp"]


def mc_cfg(W=2, D=1, Cap=5, MaxTruth=4, Slots=2, query=False, match="identity", unit_ops=True,
           small=False, env_idx=(), env_file=False):
    return MC_CONSTS.format(
        Match=match, W=W, D=D, Cap=Cap, MaxTruth=MaxTruth, Slots=Slots,
        EnvIdx="{" + ", ".join(str(i) for i in env_idx) + "}",
        EnvFromFile="TRUE" if env_file else "FALSE",
        AddVals="MAddValsSmall" if small else "MAddVals",
        Lists="MLists" if unit_ops else "MNone",
        Dicts="MDicts",
        Ngrams="MNgramArgs" if unit_ops else "MNone",
        QueryKs=("MQueryKsSmall" if small else "MQueryKs") if query else "MNone",
        QueryThrs="MQueryThrsSmall" if small else "MQueryThrs")


def model_check(report, invs, props, tag="hh", **kw):
    cfg = write_cfg("mc_%s.cfg" % tag, mc_cfg(**kw), invs, props)
    r = run_tlc(MODULE_MC, cfg, tag=tag)
    inst = "HeavyHitters %s, ids {e,<0>,<1>,<1,0>} L=2, all placements" % json.dumps(kw, sort_keys=True)
    report.add_tlc(MODULE_MC, r, inst)
    if not r.ok:
        report.violation("model: %s %s violated on %s" % (r.kind, r.violated, inst),
                         {"kind": "model", "module": MODULE_MC, "violated": r.violated,
                          "last_state": r.last_state, "signature": {"model": r.violated}})
    return r


# -------------------------------------------------------------------------- traces

def hh_cols(W, D, L, ident):
    """Columns owned by identity `ident` (len <= L), observed on an empty probe sketch.  The
    probe adds a marker byte so that even all-NUL identities are visible in lhh_count."""
    probe = impl.heavyhitters.HeavyHitters(W, D, L)
    probe.add(ident, 7)
    cols = []
    for r in range(D):
        nz = np.flatnonzero(probe.lhh_count[r])
        if len(nz) != 1:
            raise common.ImplMisbehaved("one add to an empty probe heavy-hitter sketch left %d non-zero cells in row %d" % (len(nz), r))
        cols.append(int(nz[0]) + 1)
    return cols


def proj_hh(sk):
    D, W = int(sk.depth), int(sk.width)
    lhh = sk.lhh.tolist()
    cnt = sk.lhh_count.tolist()
    kl = sk.key_lens.tolist()
    return {"cells": [[{"key": lhh[r][c], "len": kl[r][c], "cnt": big(cnt[r][c])} for c in range(W)]
                      for r in range(D)],
            "nadd": big(sk.n_added_records[0]), "nrec": big(sk.n_added_records[1])}


def default_thr(phi, nadd):
    """floor(phi * n_added()) as the property states it (float64 product)."""
    x = float(phi) * float(int(nadd))
    if not math.isfinite(x) or not (0.0 < float(phi) <= 1.0):
        raise common.ImplMisbehaved("a HeavyHitters object reports phi = %r (outside (0, 1])" % float(phi))
    if x >= 2**32:
        raise MachineryError("default threshold outside uint32; the driver must pass one explicitly")
    return int(math.floor(x))


class HHRecorder:
    def __init__(self, W, D, L, NS, phi=None):
        self.W, self.D, self.L, self.NS = W, D, L, NS
        self.phi_arg = phi
        self.slots = [impl.heavyhitters.HeavyHitters(W, D, L, phi) for _ in range(NS)]
        self.phi = float(self.slots[0].phi)
        self.keys = {}
        self.events = []

    def ident(self, k):
        i = k[:self.L]
        if i not in self.keys:
            self.keys[i] = hh_cols(self.W, self.D, self.L, i)
        return i

    def emit(self, ev):
        ev["post"] = [proj_hh(s) for s in self.slots]
        self.events.append(ev)

    def add(self, s, k, v):
        self.ident(k)
        self.slots[s].add(k, v)
        self.emit({"ev": "add", "s": s + 1, "k": kb(k), "v": big(v)})

    def add_default(self, s, k):
        self.ident(k)
        self.slots[s].add(k)
        self.emit({"ev": "add", "s": s + 1, "k": kb(k), "v": big(1)})

    def update_list(self, s, ks):
        for k in ks:
            self.ident(k)
        self.slots[s].update(list(ks))
        self.emit({"ev": "update_list", "s": s + 1, "ks": [kb(k) for k in ks]})

    def update_dict(self, s, kvs):
        d = {}
        for k, v in kvs:
            self.ident(k)
            d[k] = v
        self.slots[s].update(d)
        self.emit({"ev": "update_dict", "s": s + 1, "kvs": [[kb(k), big(v)] for k, v in d.items()]})

    @staticmethod
    def windows(key, n):
        if len(key) <= n:
            return [key]
        return [key[i:i + n] for i in range(len(key) - n + 1)]

    def add_ngram(self, s, key, n):
        for w in self.windows(key, n):
            self.ident(w)
        self.slots[s].add_ngram(key, n)
        self.emit({"ev": "add_ngram", "s": s + 1, "key": kb(key), "n": n})

    def update_ngram(self, s, keys, n):
        for key in keys:
            for w in self.windows(key, n):
                self.ident(w)
        self.slots[s].update_ngram(list(keys), n)
        self.emit({"ev": "update_ngram", "s": s + 1, "keys": [kb(k) for k in keys], "n": n})

    def merge(self, s, t):
        if int(self.slots[s].n_added_records[0]) + int(self.slots[t].n_added_records[0]) >= 2**62:
            return                       # uint64 bookkeeping would wrap: outside every property's range
        try:
            self.slots[s].merge(self.slots[t])
        except TypeError as exc:
            if impl.STRICT_PERSIST:
                self.emit({"ev": "merge_refused", "s": s + 1, "t": t + 1, "exc": repr(exc)[:200]})
            return
        self.emit({"ev": "merge", "s": s + 1, "t": t + 1})

    def saveload(self, s, t, shm=False):
        p = impl.tmpfile()
        try:
            self.slots[s].save(p)
            new = impl.heavyhitters.HeavyHitters.load(p, shared_memory=shm)
        except Exception as exc:
            if impl.STRICT_PERSIST:
                self.emit({"ev": "saveload_failed", "s": s + 1, "t": t + 1, "exc": repr(exc)[:200]})
            return
        finally:
            if os.path.exists(p):
                os.unlink(p)
        thr = default_thr(new.phi, self.slots[s].n_added())
        self.slots[t] = new
        self.emit({"ev": "saveload", "s": s + 1, "t": t + 1, "thr": big(thr)})

    def add_records(self, s, n):
        self.slots[s].n_added_records[1] += np.uint64(n)
        self.emit({"ev": "add_records", "s": s + 1, "n": big(n)})

    def query(self, s, kk, thr):
        """kk: int or None (all); thr: int or None (default)."""
        sk = self.slots[s]
        eff = default_thr(sk.phi, sk.n_added()) if thr is None else thr
        karg = kk if kk is not None else 10**6
        out = sk.query(karg) if thr is None else sk.query(karg, thr)
        self.emit({"ev": "query", "s": s + 1, "kk": 0 if kk is None else kk, "thr": big(eff),
                   "out": [[kb(k), big(c)] for k, c in out]})

    def generate(self, s, thr):
        sk = self.slots[s]
        eff = default_thr(sk.phi, sk.n_added()) if thr is None else thr
        sk.generate_candidate_set() if thr is None else sk.generate_candidate_set(thr)
        self.emit({"ev": "generate", "s": s + 1, "thr": big(eff)})

    def getitem(self, s, k):
        i = self.ident(k)
        out = self.slots[s][i]
        self.emit({"ev": "getitem", "s": s + 1, "k": kb(i), "out": big(out)})

    def trace(self):
        return {"W": self.W, "D": self.D, "L": self.L, "NS": self.NS, "phi": self.phi,
                "phi_arg": -1 if self.phi_arg is None else self.phi_arg,
                "keys": [{"b": kb(k), "cols": c} for k, c in self.keys.items()],
                "events": self.events}


def key_pool(rng, L):
    """Keys with the alias structure C03 singles out, relative to max_key_len L."""
    base = [b"", b"\x00", b"\x00\x00", b"a", b"a\x00", b"a\x00\x00", b"ab", b"b", b"\xff",
            b"\x00a", b"\x80\x00", b"\x00" * L, b"\x00" * (L + 1), b"a" * L, b"a" * L + b"x",
            b"a" * L + b"y", b"a" * max(L - 1, 0), (b"a" * max(L - 1, 0)) + b"\x00"]
    for _ in range(3):
        ln = rng.randint(0, L + 2)
        base.append(bytes(rng.choice([0, 0, 0x61, 0xff, rng.randrange(256)]) for _ in range(ln)))
    seen, out = set(), []
    for k in base:
        if k not in seen:
            seen.add(k)
            out.append(k)
    return out


HH_VALUES = [0, 1, 1, 1, 2, 3, 5, 97, 1000, 2**31, 2**32 - 2, 2**32 - 1, 2**32, 2**32 + 1, 2**33]


def random_history(rng, focus=None, n_events=None):
    W = rng.choice([1, 1, 2, 2, 3, 4, 5, 8, 16])
    D = rng.choice([1, 1, 2, 2, 3, 4])
    L = rng.choice([1, 2, 2, 3, 4, 8, 16, 16, 40, 255])
    NS = rng.choice([1, 2, 2, 3, 4])
    phi = rng.choice([None, None, 0.5, 0.01, 0.25])
    rec = HHRecorder(W, D, L, NS, phi)
    pool = key_pool(rng, L)
    keys = rng.sample(pool, rng.randint(2, min(8, len(pool))))
    # always at least one pair of keys that differ only in trailing NUL bytes (or in length beyond
    # max_key_len): the identities C03/C13 single out
    stem = rng.choice([b"", b"a", b"q\x00", b"\xff"])[:max(L - 1, 0)]
    for k in (stem, stem + b"\x00", (stem + b"\x00\x00")[:L + 1]):
        if k not in keys:
            keys.append(k)
    n = n_events or rng.randint(8, 28)
    big_ok = focus == "ceiling"
    vals = HH_VALUES if big_ok else [0, 1, 1, 1, 2, 3, 5, 7, 97, 1000, 10**6]
    for _ in range(n):
        s, t = rng.randrange(NS), rng.randrange(NS)
        k = rng.choice(keys)
        x = rng.random()
        if focus == "query" and rng.random() < 0.5:
            x = 0.87
        if focus == "batch" and rng.random() < 0.6:
            x = 0.36 + 0.3 * rng.random()
        if x < 0.30:
            rec.add(s, k, rng.choice(vals))
        elif x < 0.36:
            rec.add_default(s, k)
        elif x < 0.44:
            rec.update_list(s, [rng.choice(keys) for _ in range(rng.randint(0, 6))])
        elif x < 0.52:
            rec.update_dict(s, [(rng.choice(keys), rng.choice(vals)) for _ in range(rng.randint(0, 4))])
        elif x < 0.60:
            key = rng.choice(keys + [b"abab", b"a\x00a\x00", b"\x00\x00\x00"])[:10]
            nn = rng.choice([1, 2, 3, max(1, len(key) - 1), max(1, len(key)), len(key) + 1, len(key) + 2])
            rec.add_ngram(s, key, nn)
        elif x < 0.66:
            rec.update_ngram(s, [rng.choice(keys + [b"aab", b"\x00a\x00"])[:8] for _ in range(rng.randint(0, 3))],
                             rng.choice([1, 2, 3]))
        elif x < 0.78:
            rec.merge(s, t)
        elif x < 0.83:
            if s != t:
                try:
                    rec.saveload(s, t, shm=rng.random() < 0.15)
                except MachineryError:
                    pass
            else:
                rec.getitem(s, k)
        elif x < 0.85:
            rec.add_records(s, rng.choice([0, 1, 9]))
        elif x < 0.93:
            nadd = int(rec.slots[s].n_added())
            thr_choices = [0, 1, 2, 3, 97, 2**32 - 1]
            if rec.phi * nadd < 2**31:
                thr_choices += [None, None, None]
            if rng.random() < 0.2:
                rec.generate(s, rng.choice(thr_choices))
            rec.query(s, rng.choice([None, None, 1, 2, 3]), rng.choice(thr_choices))
        else:
            rec.getitem(s, k)
    for s in range(NS):
        rec.query(s, None, 0)
        rec.query(s, None, 1)
        for k in list(rec.keys)[:5]:
            rec.getitem(s, k)
    return rec.trace()


def rerun(trace):
    """Re-execute a recorded trace's operations against the current tree (for --replay)."""
    pa = trace.get("phi_arg", -1)
    rec = HHRecorder(trace["W"], trace["D"], trace["L"], trace["NS"], None if pa == -1 else pa)
    for e in trace["events"]:
        s = e["s"] - 1
        ev = e["ev"]
        if ev == "add":
            rec.add(s, bytes(e["k"]), impl.unbig(e["v"]))
        elif ev == "update_list":
            rec.update_list(s, [bytes(k) for k in e["ks"]])
        elif ev == "update_dict":
            rec.update_dict(s, [(bytes(k), impl.unbig(v)) for k, v in e["kvs"]])
        elif ev == "add_ngram":
            rec.add_ngram(s, bytes(e["key"]), e["n"])
        elif ev == "update_ngram":
            rec.update_ngram(s, [bytes(k) for k in e["keys"]], e["n"])
        elif ev == "merge":
            rec.merge(s, e["t"] - 1)
        elif ev == "saveload":
            rec.saveload(s, e["t"] - 1)
        elif ev == "add_records":
            rec.add_records(s, impl.unbig(e["n"]))
        elif ev == "query":
            rec.query(s, e["kk"] or None, impl.unbig(e["thr"]))
        elif ev == "getitem":
            rec.getitem(s, bytes(e["k"]))
        elif ev == "generate":
            rec.generate(s, impl.unbig(e["thr"]))
    return rec.trace()


def validate(report, traces, invs, props, tag="hhtr"):
    return common.validate_traces(report, MODULE_TR, TR_CONSTS, traces, invs, props, tag, "hh")


# ------------------------------------------------------------- spec -> code replay

MODEL_IDS = [(), (0,), (1,), (1, 0)]


def observed_envs(W, D, limit, rng):
    """Placements of the model identities realised by 2-byte real keys: the model byte 1
    becomes a real byte a, 0 stays NUL.  Returns [(env_json_obj, a)], distinct placements."""
    seen = {}
    order = list(range(1, 256))
    rng.shuffle(order)
    order = [0x61, 0xff, 0x80] + [a for a in order if a not in (0x61, 0xff, 0x80)]
    for a in order:
        col = []
        for ident in MODEL_IDS:
            real = bytes(a if b == 1 else 0 for b in ident)
            col.append([list(ident), hh_cols(W, D, 2, real)])
        key = json.dumps(col)
        if key not in seen:
            seen[key] = ({"W": W, "D": D, "L": 2, "col": col}, a)
            if len(seen) >= limit:
                break
    return list(seen.values())


def export_edges(report, envs, tag, Cap, MaxTruth, Slots, unit_ops, query, small):
    path = os.path.join(workdir(), "envs_%s.json" % tag)
    with open(path, "w") as f:
        json.dump([e for e, _a in envs], f)
    base = mc_cfg(W=envs[0][0]["W"], D=envs[0][0]["D"], Cap=Cap, MaxTruth=MaxTruth, Slots=Slots,
                  query=query, unit_ops=unit_ops, small=small, env_file=True)
    cfg = write_cfg("edges_%s.cfg" % tag, base, [], [], "ACTION_CONSTRAINT LogEdge\n")
    r = run_tlc(MODULE_MC, cfg, env={"ENV_FILE": path}, workers=1, tag=tag)
    if not r.ok:
        raise MachineryError("edge export run failed: %s" % r.violated)
    edges = [json.loads(common.tla_string_payloads(p)[1]) for p in r.prints if p.startswith('<<"EDGE"')]
    if len(edges) < r.distinct - 64:
        raise MachineryError("exported %d edges but TLC found %d distinct states" % (len(edges), r.distinct))
    report.add_tlc(MODULE_MC + "(edge export)", r, "observed placements=%d Cap=%d slots=%d total-truth<=%d unit_ops=%s query=%s"
                   % (len(envs), Cap, Slots, MaxTruth, unit_ops, query))
    return edges


def _snap(objs):
    import copy
    return [(o.lhh.copy(), o.lhh_count.copy(), o.key_lens.copy(), o.n_added_records.copy(),
             copy.copy(o.candidate_set), o.n_added_sort, o.threshold_sort) for o in objs]


def _restore(snap, W, D):
    import copy
    objs = []
    for (lhh, cnt, kl, nar, cand, ns, ts) in snap:
        o = impl.heavyhitters.HeavyHitters(W, D, 2)
        o.lhh[:] = lhh
        o.lhh_count[:] = cnt
        o.key_lens[:] = kl
        o.n_added_records[:] = nar
        o.candidate_set = copy.copy(cand)
        o.n_added_sort = ns
        o.threshold_sort = ts
        objs.append(o)
    return objs


def replay_edges(report, edges, envs, Cap, scaled):
    S = (CAP32 // Cap) if scaled else 1
    if scaled and CAP32 % Cap:
        raise MachineryError("Cap %d does not divide 2^32-1" % Cap)
    a_of = {json.dumps(e["col"]): a for e, a in envs}
    by_env = {}
    for e in edges:
        by_env.setdefault(json.dumps(e["e"]["col"]), []).append(e)
    n_done = 0
    for colj, es in by_env.items():
        a = a_of[colj]
        W, D = es[0]["e"]["W"], es[0]["e"]["D"]
        rk = lambda k: bytes(a if b == 1 else 0 for b in k)

        def model_state(f):
            return [{"cells": [[{"key": [a if b == 1 else 0 for b in c["key"]], "len": c["len"], "cnt": c["cnt"] * S}
                                for c in row] for row in s["cells"]],
                     "nadd": s["nadd"] * S, "nrec": s["nrec"]} for s in f]

        def real_state(objs):
            res = []
            for o in objs:
                lhh, cnt, kl = o.lhh.tolist(), o.lhh_count.tolist(), o.key_lens.tolist()
                res.append({"cells": [[{"key": lhh[r][c], "len": kl[r][c], "cnt": cnt[r][c]} for c in range(W)]
                                      for r in range(D)],
                            "nadd": int(o.n_added_records[0]), "nrec": int(o.n_added_records[1])})
            return res
        node_of = lambda f, c: json.dumps([f, c], sort_keys=True)
        out = {}
        for e in es:
            out.setdefault(node_of(e["f"], e["fc"]), []).append(e)
        init = [e for e in es if all(s["nadd"] == 0 and s["nrec"] == 0 and
                                     all(c["cnt"] == 0 and c["len"] == 0 for row in s["cells"] for c in row)
                                     for s in e["f"]) and all(c["cand"] == [] and c["naddSort"] == 0 and c["thrSort"] == 0
                                                              for c in e["fc"])]
        if not init:
            raise MachineryError("no edge leaves the initial state")
        NS = len(init[0]["f"])
        start = node_of(init[0]["f"], init[0]["fc"])
        snaps = {start: _snap([impl.heavyhitters.HeavyHitters(W, D, 2) for _ in range(NS)])}
        queue = [start]

        def bad(e, msg, got=None, exp=None):
            report.violation("edge replay (a=0x%02x, scale %d): %s; op %s" % (a, S, msg, json.dumps(e["o"])),
                             {"kind": "edge", "env": e["e"], "edge": e, "a": a, "scale": S, "got": got,
                              "expected": exp, "signature": {"edge_op": e["o"]["name"]}})
        while queue:
            node = queue.pop()
            for e in out.get(node, []):
                objs = _restore(snaps[node], W, D)
                o = e["o"]
                name = o["name"]
                s = objs[o["s"] - 1]
                if name == "add":
                    s.add(rk(o["k"]), o["v"] * S)
                elif name == "update_list":
                    s.update([rk(k) for k in o["ks"]])
                elif name == "update_dict":
                    s.update({rk(k): v * S for k, v in o["kvs"]})
                elif name == "add_ngram":
                    s.add_ngram(rk(o["key"]), o["n"])
                elif name == "merge":
                    s.merge(objs[o["t"] - 1])
                elif name == "saveload":
                    p = impl.tmpfile()
                    s.save(p)
                    objs[o["t"] - 1] = impl.heavyhitters.HeavyHitters.load(p)
                    os.unlink(p)
                elif name == "add_records":
                    s.n_added_records[1] += np.uint64(o["n"])
                elif name == "query":
                    got = [[list(k), int(c)] for k, c in s.query(o["kk"] if o["kk"] else 10**6, o["thr"] * S)]
                    exp = [[list(rk(k)), c * S] for k, c in o["out"]]
                    full = [[list(rk(k)), c * S] for k, c in o["full"]]
                    if [c for _k, c in got] != [c for _k, c in exp] or any(g not in full for g in got) or \
                            len({tuple(k) for k, _c in got}) != len(got):
                        bad(e, "query returned %s, specification %s" % (got, exp), got, exp)
                        return False
                elif name == "generate":
                    s.generate_candidate_set(o["thr"] * S)
                elif name == "getitem":
                    got = int(s[rk(o["k"])])
                    if got != o["out"] * S:
                        bad(e, "hh[key] returned %d, specification %d" % (got, o["out"] * S))
                        return False
                else:
                    raise MachineryError("unknown op %s" % name)
                got = real_state(objs)
                exp = model_state(e["t"])
                n_done += 1
                report.count_action("replay:" + name)
                if got != exp:
                    bad(e, "implementation state differs from the specification: got %s expected %s"
                        % (json.dumps(got), json.dumps(exp)), got, exp)
                    return False
                tn = node_of(e["t"], e["tc"])
                if tn not in snaps:
                    snaps[tn] = _snap(objs)
                    queue.append(tn)
        report.sample({"replayed_placement": json.loads(colj), "real_byte_for_1": a, "scale": S, "edges": len(es)}, limit=3)
    report.cov["edges_replayed"] = report.cov.get("edges_replayed", 0) + n_done
    report.cov["traces_validated_against_impl"] += n_done
    return True
