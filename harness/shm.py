"""C16: behaviours of spec/SharedMem.tla replayed on real shared-memory sketches of all five
classes (odd shapes), with an in-memory twin; /dev/shm is inspected after every step."""
import gc
import json
import os
import random

import numpy as np

import common
from common import run_tlc, workdir, MachineryError, write_cfg
import impl
import compat

CFG = """SPECIFICATION Spec
CONSTANTS
  Views = {1, 2}
  Ops = {1, 2}
  MaxOps = %d
VIEW pview
INVARIANT OneState
INVARIANT OwnerUnlinks
INVARIANT AttachFailsAfterUnlink
INVARIANT Layout
PROPERTY ViewNeverUnlinks
CHECK_DEADLOCK FALSE
"""


def model_and_edges(report, max_ops):
    cfg = write_cfg("shm.cfg", CFG % max_ops, [], [], "ACTION_CONSTRAINT LogEdge\n")
    r = run_tlc("SharedMem", cfg, workers=1, tag="shm")
    report.add_tlc("SharedMem (1 owner, 2 views, <=%d operations, all deletion orders)" % max_ops, r)
    if not r.ok:
        report.violation("model: %s %s violated" % (r.kind, r.violated), {"kind": "model", "signature": {"model": r.violated}})
        return []
    return [json.loads(common.tla_string_payloads(p)[1]) for p in r.prints if p.startswith('<<"EDGE"')]


def paths(edges, max_len, rng, limit):
    """Behaviours (operation sequences) of the exported graph, from the initial state."""
    key = lambda st: json.dumps(st, sort_keys=True)
    out = {}
    for e in edges:
        out.setdefault(key(e["f"]), []).append(e)
    init = key({"seg": {"exists": False, "content": []}, "owner": "none", "view": ["none", "none"], "twin": []})
    if init not in out:
        raise MachineryError("initial state not found in the exported graph")
    res = []

    def dfs(node, path):
        nxt = out.get(node, [])
        if len(path) >= max_len or not nxt:
            res.append(list(path))
            return
        if len(res) > limit * 50:
            return
        for e in nxt:
            path.append(e["o"])
            dfs(key(e["t"]), path)
            path.pop()
    dfs(init, [])
    short = [p for p in res if len(p) <= 4]
    rest = [p for p in res if len(p) > 4]
    rng.shuffle(rest)
    return (short + rest)[:limit]


SHAPES = {
    "linear": [dict(width=3, depth=1), dict(width=5, depth=3), dict(width=1, depth=1)],
    "log16": [dict(width=3, depth=1), dict(width=5, depth=3), dict(width=7, depth=1), dict(width=3, depth=3, max_count=10**6, num_reserved=200),
              dict(width=2, depth=2, max_count=2**32 - 1, num_reserved=0, random=True)],
    "log8": [dict(width=3, depth=1), dict(width=5, depth=3), dict(width=13, depth=1), dict(width=7, depth=3, max_count=70000, num_reserved=40),
             dict(width=3, depth=1, max_count=10**6, num_reserved=0, random=True)],
    "hll": [dict(p=7, seed=0), dict(p=8, seed=2**63)],
    "hh": [dict(width=3, depth=1, max_key_len=3), dict(width=1, depth=1, max_key_len=1), dict(width=5, depth=3, max_key_len=7)],
}
OPS = {1: (b"a", 1), 2: (b"\x00b", 3)}


def new_sketch(kind, shape, shm):
    if kind in ("log16", "log8") and "max_count" in shape:
        # non-default parameters, built by the class itself (counts stay inside the reserved range)
        return impl.CM_CLASSES[kind](shape["width"], shape["depth"], shape["max_count"], shape["num_reserved"], shared_memory=shm)
    if kind in ("linear", "log16", "log8"):
        return impl.countmin.CountMin(kind, shape["width"], shape["depth"], shared_memory=shm)
    if kind == "hll":
        return impl.hyperloglog.HyperLogLog(shape["p"], shape["seed"], shared_memory=shm)
    return impl.heavyhitters.HeavyHitters(shape["width"], shape["depth"], shape["max_key_len"], shared_memory=shm)


def attach(kind, shape, name, how, owner=None):
    if how == 0:
        typ = "cms" if kind in ("linear", "log16", "log8") else kind
        # as parallel_add does: the owner's own `args` dictionary (when the owner still exists)
        args = dict(owner.args) if owner is not None else owner_args(kind, shape)
        return impl.helpers.attach_shared_memory(typ, args, name)
    v = new_sketch(kind, shape, False)
    v.attach_existing_shm(name)
    return v


def owner_args(kind, shape):
    if kind in ("linear", "log16", "log8"):
        a = {"cms_type": kind, "width": shape["width"], "depth": shape["depth"]}
        if "max_count" in shape:
            a.update(max_count=shape["max_count"], num_reserved=shape["num_reserved"])
        return a
    return dict(shape)


def public_params(sk):
    names = ("width", "depth", "max_count", "num_reserved", "base", "p", "seed", "max_key_len")
    return {n: (float(getattr(sk, n)) if n == "base" else int(getattr(sk, n))) for n in names if hasattr(sk, n)}


def state_of(sk):
    return compat.digest(sk)


def observations(kind, sk):
    """What the public observers answer (for heavy hitters they go through the candidate-set cache,
    which is per handle and not part of the block)."""
    if kind == "hh":
        keys = [k for k, _ in OPS.values()] + [b"seed", b"\x00", b"zz"]
        return {"top_thr0": sorted((bytes(k), int(c)) for k, c in sk.query(10**6, 0)),
                "top_default": sorted((bytes(k), int(c)) for k, c in sk.query(10**6)),
                "point": [int(sk[k[:int(sk.max_key_len)]]) for k in keys], "n": [int(sk.n_added()), int(sk.n_records())]}
    if kind == "hll":
        return {"query": float(sk.query())}
    return {"n": [int(sk.n_added()), int(sk.n_records())]}


def listed(name):
    return os.path.exists("/dev/shm/" + name.lstrip("/"))


LOADERS = {"linear": lambda p, shm: impl.countmin.CountMinLinear.load(p, shm), "log16": lambda p, shm: impl.countmin.load(p, shm),
           "log8": lambda p, shm: impl.countmin.CountMinLog8.load(p, shm), "hll": lambda p, shm: impl.hyperloglog.HyperLogLog.load(p, shm),
           "hh": lambda p, shm: impl.heavyhitters.HeavyHitters.load(p, shm)}


def replay(report, path, kind, shape, rng, from_file=False):
    """from_file: the owner is not built by the constructor but by load(..., shared_memory=True) of a
    saved, non-empty sketch (the other documented way to obtain a shared-memory sketch)."""
    owner = None
    views = {1: None, 2: None}
    twin = new_sketch(kind, shape, False)
    saved = None
    if from_file:
        for j, k in enumerate([b"seed", b"\x00", b"zz"]):
            twin.add(k, j + 1)
        saved = impl.tmpfile()
        twin.save(saved)
    name = None
    scen = {"class": kind, "shape": {k: str(v) for k, v in shape.items()}, "ops": path, "owner_from_file": from_file}
    if shape.get("random"):
        from_file = False

    def bad(msg, step):
        report.violation("shared-memory replay %s: step %d %s: %s" % (json.dumps(scen)[:500], step, json.dumps(path[step]), msg),
                         {"kind": "shm", "scenario": scen, "step": step, "signature": {"shm": path[step]["name"], "class": kind}})
        return False
    try:
        for i, o in enumerate(path):
            nm = o["name"]
            if nm == "create":
                owner = LOADERS[kind](saved, True) if from_file else new_sketch(kind, shape, True)
                name = owner.shm.name
            elif nm == "attach":
                try:
                    views[o["v"]] = attach(kind, shape, name, rng.randrange(2), owner)
                    got_ok = True
                except FileNotFoundError:
                    got_ok = False
                if got_ok != o["ok"]:
                    return bad("attach %s, specification says %s" % ("succeeded" if got_ok else "raised FileNotFoundError",
                                                                     "ok" if o["ok"] else "FileNotFoundError"), i)
            elif nm == "apply":
                h = owner if o["h"] == 0 else views[o["h"]]
                k, v = OPS[o["o"]]
                form = (i + o["o"]) % 4
                if form == 0 and kind != "hll":
                    # the other ways state reaches a block: a merge into the handle and the
                    # n_records update a parallel_add worker performs
                    tmp = new_sketch(kind, shape, False)
                    tmp.add(k, v)
                    h.merge(tmp)
                    twin.merge(tmp)
                    h.n_added_records[1] += np.uint64(3)
                    twin.n_added_records[1] += np.uint64(3)
                elif form == 1:
                    h.update({k: v})
                    twin.update({k: v})
                elif form == 2:
                    # the n-gram entry points through the handle (they have their own kernels)
                    n = 1 + (i % 2)
                    h.add_ngram(k, n)
                    twin.add_ngram(k, n)
                elif form == 3 and i % 2 == 1:
                    h.update_ngram([k, k + b"z"], 2)
                    twin.update_ngram([k, k + b"z"], 2)
                else:
                    h.add(k, v)
                    twin.add(k, v)
            elif nm == "drop_view":
                v = views[o["v"]]
                views[o["v"]] = None
                del v
                gc.collect()
            elif nm == "drop_owner":
                tmp = owner
                owner = None
                del tmp
                gc.collect()
            report.count_action("shm:" + nm)
            # every live handle and the twin project to the same state
            want = state_of(twin)
            for hname, h in [("owner", owner)] + [("view%d" % k, v) for k, v in views.items()]:
                # (num_reserved = 0: every add beyond the first is randomised, handles draw from their own
                # batches, so only the counters of owner and views -- one block -- are compared)
                if h is not None and shape.get("random") and owner is not None and state_of(h) != state_of(owner):
                    return bad("%s and the owner observe different states" % hname, i)
                if h is not None and not shape.get("random") and state_of(h) != want:
                    return bad("%s observes a state different from the in-memory twin's" % hname, i)
                # (not at every step: a query refreshes the handle's cache, and a stale cache must have the
                # chance to survive until a later query)
                observe = nm == "attach" or rng.random() < 0.6
                if observe and h is not None and not shape.get("random") and observations(kind, h) != observations(kind, twin):
                    return bad("%s answers %s, an ordinary sketch with the same history %s" % (
                        hname, observations(kind, h), observations(kind, twin)), i)
                if h is not None and public_params(h) != public_params(twin):
                    return bad("%s has parameters %s, an ordinary sketch of the same arguments %s" % (
                        hname, public_params(h), public_params(twin)), i)
            if name is not None:
                should = owner is not None
                if listed(name) != should:
                    return bad("segment %s %s in /dev/shm" % (name, "still listed" if not should else "missing"), i)
        return True
    finally:
        for k in views:
            views[k] = None
        owner = None
        gc.collect()
        if saved and os.path.exists(saved):
            os.unlink(saved)
