"""C11 (and the mechanism part of C14): recorded calls of the real hash functions validated
against spec/Hashes.tla, which is anchored to the SMHasher verification values."""
import json
import os
import subprocess
import sys

import common
from common import run_tlc, workdir, MachineryError, write_cfg
import impl

TR_CFG = "SPECIFICATION TSpec\nINVARIANT TraceOK\nCHECK_DEADLOCK TRUE\n"
MC_CFG = "INIT Init\nNEXT Next\nINVARIANT Anchored\nCHECK_DEADLOCK FALSE\n"


def anchor(report):
    """Hashes.tla reproduces SMHasher's verification values; Nlz64 equals its definition."""
    cfg = write_cfg("mc_hashes.cfg", MC_CFG, [], [])
    r = run_tlc("MC_Hashes", cfg, workers=1, tag="anchor")
    report.add_tlc("MC_Hashes (SMHasher anchors 0xA16231A7 0xE9481AFC 0xB0F57EE3; nlz64 on 65x3 patterns)", r)
    if not r.ok:
        raise MachineryError("Hashes.tla does not reproduce the SMHasher verification values: the oracle is broken")


def w(x, n):
    return list(int(x).to_bytes(n, "little"))


BIAS = [0x00, 0x7f, 0x80, 0xff]


def gen_key(rng, n):
    mode = rng.randrange(4)
    if mode == 0:
        return bytes(rng.choice(BIAS) for _ in range(n))
    if mode == 1:
        return bytes(rng.randrange(256) for _ in range(n))
    if mode == 2:
        return bytes(rng.choice(BIAS + [rng.randrange(256)]) for _ in range(n))
    return bytes([rng.choice(BIAS)]) * n


SEEDS64 = [0, 1, 2**32 - 1, 2**32, 2**63, 2**64 - 1, 7, 255, 256]
SEEDS32 = [0, 1, 2**31, 2**32 - 1, 7, 255, 256, 0x9747b28c]


_VIEW = {}


def via_view(fn):
    """The hash of buf[off:off+n] computed INSIDE jitted code, where the slice is a view into the parent
    buffer (no copy, no terminating NUL): how add_ngram and user kernels call the hash functions."""
    if fn not in _VIEW:
        import numba
        f = getattr(impl.hashes, fn)

        @numba.njit
        def call(buf, off, n, seed):
            return f(buf[off:off + n], seed)
        _VIEW[fn] = call
    return _VIEW[fn]


def gen_calls(rng, reps, max_len=257):
    """Every length 0..max_len `reps` times; keys produced by slicing a larger buffer at
    every alignment offset; repeated calls interleaved (purity)."""
    h = impl.hashes
    calls = []
    import numpy as np
    buf = bytes(rng.randrange(1, 256) for _ in range(8)) * 2          # (non-zero neighbours of every slice)
    for rep in range(reps):
        for n in range(max_len + 1):
            key = gen_key(rng, n)
            off = (n + rep) % 8
            big = buf[:off] + key + buf[off:]
            key2 = big[off:off + n]                 # same content, built by slicing at offset off
            s64 = rng.choice(SEEDS64 + [rng.randrange(2**64)])
            s32 = rng.choice(SEEDS32 + [rng.randrange(2**32)])
            fn = ["fasthash64", "fasthash32", "murmur3"][(n + rep) % 3]
            view = (n + rep) % 2 == 0          # half of the calls hash a view inside jitted code
            if view:
                sd = np.uint32(s32) if fn == "murmur3" else np.uint64(s64)
                vout = int(via_view(fn)(big, off, n, sd))
            if fn == "fasthash64":
                out = vout if view else h.fasthash64(key2, s64)
                calls.append({"fn": fn, "key": list(key), "seed": w(s64, 8), "out": w(out, 8)})
                again = h.fasthash64(key, s64)
            elif fn == "fasthash32":
                out = vout if view else h.fasthash32(key2, s64)
                calls.append({"fn": fn, "key": list(key), "seed": w(s64, 8), "out": w(out, 4)})
                again = h.fasthash32(key, s64)
            else:
                out = vout if view else h.murmur3(key2, s32)
                calls.append({"fn": fn, "key": list(key), "seed": w(s32, 4), "out": w(out, 4)})
                again = h.murmur3(key, s32)
            if int(again) != int(out):
                calls.append({"fn": fn, "key": list(key), "seed": calls[-1]["seed"],
                              "out": w(again, len(calls[-1]["out"]))})
    return calls


def other_process_calls(seed, n):
    """Same generator in a fresh interpreter with another PYTHONHASHSEED."""
    code = ("import sys,json,random;sys.path.insert(0,%r);import common,impl,hashes_drv;"
            "print('CALLS'+json.dumps(hashes_drv.gen_calls(random.Random(%d),1,%d)))"
            % (os.path.dirname(os.path.abspath(__file__)), seed, n))
    env = dict(os.environ, PYTHONHASHSEED="12345", PYTHONDONTWRITEBYTECODE="1")
    return subprocess.Popen([sys.executable, "-W", "ignore", "-c", code], env=env,
                            stdout=subprocess.PIPE, stderr=subprocess.DEVNULL, text=True)


def validate_calls(report, calls, tag, prop_label="hash"):
    if not calls:
        return True
    nb = 32
    batches = [calls[i::nb] for i in range(nb) if calls[i::nb]]
    path = os.path.join(workdir(), "calls_%s.json" % tag)
    with open(path, "w") as f:
        json.dump(batches, f)
    cfg = write_cfg("tr_%s.cfg" % tag, TR_CFG, [], [])
    r = run_tlc("Trace_Hashes", cfg, env={"TRACE_FILE": path}, workers=16, tag=tag)
    os.unlink(path)
    report.cov["states"] += r.distinct
    report.cov["transitions"] += r.generated
    report.cov["tlc_runs"].append({"name": "Trace_Hashes", "calls": len(calls), "distinct_states": r.distinct,
                                   "wall_s": round(r.wall, 1)})
    if r.ok:
        if r.distinct < len(calls):
            raise MachineryError("hash trace spec explored %d states for %d calls" % (r.distinct, len(calls)))
        report.cov["traces_validated_against_impl"] += len(calls)
        report.cov["evaluations"] += len(calls)
        for c in calls:
            report.count_action(c["fn"])
        return True
    tid = int(r.last_state.get("tid", "0"))
    l = int(r.last_state.get("l", "0")) - (1 if r.violated == "TraceOK" else 0)
    call = batches[tid - 1][l - 1] if 0 < tid <= len(batches) and 0 < l <= len(batches[tid - 1]) else None
    mism = [p for p in r.prints if p.startswith('<<"MISMATCH"')]
    detail = common.pick_mismatch(mism, tid, l)
    report.violation("%s call rejected: %s ; %s" % (prop_label, json.dumps(call)[:800], detail),
                     {"kind": "hashcall", "call": call, "violated": r.violated,
                      "signature": {"fn": call["fn"] if call else "?"}})
    return False
