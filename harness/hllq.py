"""C17: HyperLogLog.query() validated against spec/HLLQuery.tla: one implementation test per
cell of the regime decision (4 regimes x 10 precisions) plus the boundaries."""
import json
import math
import os
from fractions import Fraction

import numpy as np

import common
from common import run_tlc, workdir, MachineryError
import impl
from cm_log import digits, scale_floats

TH, RAW, BIAS = (impl.hyperloglog.sub_algorithm_threshold, impl.hyperloglog.raw_estimate,
                 impl.hyperloglog.bias_data)


def oracle(regs, p):
    """Independent evaluation of the documented estimator's ingredients (exact fractions,
    math.log).  Returns floats."""
    m = 1 << p
    V = int(np.count_nonzero(regs == 0))
    hist = np.bincount(regs, minlength=66)
    S = sum(Fraction(int(c), 1 << r) for r, c in enumerate(hist) if c)
    alpha = Fraction(7213, 10000) / (1 + Fraction(1079, 1000) / m)
    raw = alpha * m * m / S
    lc = m * math.log(m / V) if V > 0 else float("inf")
    xs = [Fraction(float(x)) for x in RAW[p - 7]]
    ys = [Fraction(float(y)) for y in BIAS[p - 7]]
    if raw <= xs[0]:
        b = ys[0]
    elif raw >= xs[-1]:
        b = ys[-1]
    else:
        lo, hi = 0, len(xs) - 1
        while hi - lo > 1:
            mid = (lo + hi) // 2
            if xs[mid] <= raw:
                lo = mid
            else:
                hi = mid
        b = ys[lo] + (ys[lo + 1] - ys[lo]) * (raw - xs[lo]) / (xs[lo + 1] - xs[lo])
    return {"V": V, "lc": lc, "raw": float(raw), "bias": float(b)}


def arrays_for(p, rng, quick):
    """(label, registers) pairs that land in every regime and next to both boundaries."""
    m = 1 << p
    mx = 64 - p + 1
    out = []
    z = lambda: np.zeros(m, np.uint8)
    out.append(("empty", z()))
    # real key sets at several loads (capped so that the quick tier stays fast)
    loads = [0.01, 0.1, 0.5, 1, 2, 3, 5, 10] + ([] if quick else [30, 100])
    for ld in loads:
        n = int(ld * m)
        if n < 1 or n > (300000 if quick else 3000000):
            continue
        sk = impl.hyperloglog.HyperLogLog(p, rng.choice([0, 7, 2**63]))
        base = rng.randrange(1 << 40)
        sk.update([(base + i).to_bytes(8, "little") for i in range(n)])
        out.append(("keys%g" % ld, sk.registers.copy()))
    # synthetic arrays
    a = z(); a[:] = 1; out.append(("all1", a))                       # no zero register, raw = 2*alpha*m <= 5m
    a = z(); a[:] = 4; out.append(("all4", a))                       # raw = 16*alpha*m > 5m
    a = z(); a[:] = mx; out.append(("allmax", a))
    a = z(); a[:] = 2; a[0] = 0; out.append(("one_zero", a))         # exactly one zero register
    a = z(); a[: m // 2] = 1; out.append(("half_zero", a))
    # around the 5m boundary without zero registers: mix of ranks 2 and 3 (raw from 2.9m to 5.8m)
    for frac in (0.55, 0.70, 0.74, 0.78, 0.85):
        a = z(); a[:] = 2; a[: int(frac * m)] = 3
        out.append(("mix23_%g" % frac, a))
    # around the sub-algorithm threshold with zero registers: k registers set, the rest zero
    thr = float(TH[p - 7])
    for lc_target in (thr * 0.9, thr * 0.99, thr * 1.01, thr * 1.2):
        V = max(1, min(m - 1, int(round(m / math.exp(lc_target / m)))))
        a = z()
        idx = rng.sample(range(m), m - V)
        for i in idx:
            a[i] = rng.choice([1, 1, 2, 3])
        out.append(("near_thr_%g" % (lc_target / thr), a))
    # linear counting just above the threshold while the raw estimate is still below the first table
    # point (np.interp clamps to bias[0]): V zero registers, every other register at rank 1
    vthr = int(m / math.exp(thr / m))
    for dv in (0, 1, 2, 5, 10):
        V = vthr - dv
        if 1 <= V < m:
            a = z(); a[V:] = 1
            out.append(("clamp_lo_%d" % dv, a))
            a = z(); a[V:] = 1; a[V: V + (m - V) // 3] = 2
            out.append(("clamp_mix_%d" % dv, a))
    if not quick:
        # thorough: every number of zero registers within +-40 of the switch from linear counting to the
        # bias-corrected estimate (other registers at rank 1, resp. a 1/2 mix), and random register arrays
        for dv in range(-40, 41):
            V = vthr - dv
            if 1 <= V < m and dv not in (0, 1, 2, 5, 10):
                a = z(); a[V:] = 1
                out.append(("sweep_lo_%d" % dv, a))
                a = z(); a[V:] = 1; a[V: V + (m - V) // 2] = 2
                out.append(("sweep_mix_%d" % dv, a))
        for j in range(40):
            hi = rng.choice([1, 2, 3, 5, 8, mx])
            a = np.array([rng.randint(0, hi) for _ in range(m)], np.uint8) if m <= 4096 else \
                np.random.RandomState(rng.randrange(2**31)).randint(0, hi + 1, m).astype(np.uint8)
            if j % 3 == 0:
                a[np.random.RandomState(j).rand(m) < rng.choice([0.3, 0.6, 0.9])] = 0
            out.append(("random_%d" % j, a))
    # raw estimate beyond the last table point with zero registers present (clamps to bias[-1])
    a = z(); a[1:] = 6
    out.append(("one_zero_high", a))
    a = z(); a[3:] = 5
    out.append(("three_zero_high", a))
    return out


def events_for(p, rng, quick):
    evs = []
    for j, (label, regs) in enumerate(arrays_for(p, rng, quick)):
        sk = impl.hyperloglog.HyperLogLog(p, 0)
        how = j % 3
        if how == 0:
            sk.registers[:] = regs
        else:
            # the register state is reached on an object that has ALREADY answered a query for another
            # state: by a merge (how 1) or by a write to the register block, as an owner's add appears to
            # an attached view (how 2) -- query() is a function of the current registers
            lower = regs.copy()
            lower[rng.sample(range(len(lower)), len(lower) // 2)] = 0
            if how == 2 and (j // 3) % 2 == 1:
                # ... or for a state with NO zero register (the block an attached handle is pointed at next may be
                # sparser: attach_existing_shm is public) -- nothing remembered from that answer may be used
                lower = np.maximum(regs, 1)
            sk.registers[:] = lower
            sk.query()
            if how == 1:
                other = impl.hyperloglog.HyperLogLog(p, 0)
                other.registers[:] = regs
                sk.merge(other)
            else:
                sk.registers[:] = regs
            if not np.array_equal(sk.registers, regs):
                raise common.ImplMisbehaved("HyperLogLog(p=%d): merge did not produce the element-wise maximum" % p)
        got = float(sk.query())
        if not math.isfinite(got):
            raise common.ImplMisbehaved("HyperLogLog(p=%d).query() returned %r for the register array '%s'" % (p, got, label))
        o = oracle(regs, p)
        m = 1 << p
        V = o["V"]
        if V > 0:
            regime = "LC" if o["lc"] <= float(TH[p - 7]) else "BiasZero"
        else:
            regime = "BiasNoZero" if o["raw"] <= 5 * m else "Raw"
        est = {"LC": o["lc"], "BiasZero": o["raw"] - o["bias"], "BiasNoZero": o["raw"] - o["bias"], "Raw": o["raw"]}[regime]
        lc = o["lc"] if V > 0 else 0.0
        fl = [lc, o["raw"], abs(o["bias"]), float(TH[p - 7]), float(5 * m), got, max(est, 1.0) * 1e-9]
        evs.append({"id": "p%d/%s" % (p, label), "p": p, "nzero": V, "regime": regime, "empty": label == "empty",
                    "bias_neg": o["bias"] < 0, "_fl": fl, "_got": got, "_est": est})
    return evs


def tables():
    t = []
    allf = []
    for i in range(10):
        allf += [float(x) for x in RAW[i]] + [abs(float(x)) for x in BIAS[i]] + [float(TH[i])]
    return allf


def validate(report, rng, quick):
    events = []
    for p in range(7, 17):
        events += events_for(p, rng, quick)
    tf = tables()
    flat = tf + [x for e in events for x in e["_fl"]]
    _S, ints = scale_floats(flat)
    tabs = []
    k = 0
    for i in range(10):
        raw = [digits(v) for v in ints[k:k + 200]]; k += 200
        bm = ints[k:k + 200]; k += 200
        thr = digits(ints[k]); k += 1
        tabs.append({"raw": raw, "bias": [{"neg": bool(BIAS[i][j] < 0), "mag": digits(bm[j])} for j in range(200)], "thr": thr})
    cells = {}
    enc = []
    for e in events:
        v = ints[k:k + 7]; k += 7
        enc.append({"id": e["id"], "p": e["p"], "nzero": e["nzero"], "regime": e["regime"], "empty": e["empty"],
                    "bias_neg": e["bias_neg"], "lc": digits(v[0]), "raw": digits(v[1]), "bias": digits(v[2]),
                    "thr": digits(v[3]), "fivem": digits(v[4]), "out": digits(v[5]), "slack": digits(v[6])})
        cells[(e["p"], e["regime"])] = cells.get((e["p"], e["regime"]), 0) + 1
    missing = [(p, r) for p in range(7, 17) for r in ("LC", "BiasZero", "BiasNoZero", "Raw") if (p, r) not in cells]
    if missing:
        raise MachineryError("vacuous: regime cells never hit: %s" % missing)
    path = os.path.join(workdir(), "hllq.json")
    with open(path, "w") as f:
        json.dump({"tables": tabs, "events": enc}, f)
    r = run_tlc("HLLQuery", os.path.join(common.SPEC, "HLLQuery.cfg"), env={"TRACE_FILE": path}, workers=1, tag="hllq")
    os.unlink(path)
    report.add_tlc("HLLQuery (%d evaluations, 40 regime cells)" % len(enc), r)
    report.cov["regime_cells"] = {"%d/%s" % k_: v for k_, v in sorted(cells.items())}
    if r.ok:
        report.cov["traces_validated_against_impl"] += len(enc)
        report.cov["evaluations"] += len(enc)
        e0 = events[3]
        report.sample({"id": e0["id"], "regime": e0["regime"], "query()": e0["_got"], "estimator": e0["_est"]})
        return True
    detail = ""
    for p in r.prints:
        if p.startswith('<<"MISMATCH"'):
            detail = common.tla_string_payloads(p)[-1]
    bad = None
    try:
        bid = json.loads(detail)["bad"]
        bad = next(e for e in events if e["id"] == bid)
    except Exception:
        pass
    what = "HLL++ estimator: %s %s violated. %s" % (r.kind, r.violated, detail[:300])
    if bad:
        what += " query() returned %r, the documented estimator gives %r (regime %s)" % (bad["_got"], bad["_est"], bad["regime"])
    report.violation(what, {"kind": "hllq", "event": bad and {k: v for k, v in bad.items() if not k.startswith("_")},
                            "signature": {"hllq": bad["regime"] if bad else "tables"}})
    return False
