"""Regenerates MANIFEST.json from the table below (kept in one place so that the manifest
is always valid and in step with the checks that exist)."""
import json
import os

VERIF = os.path.dirname(os.path.dirname(os.path.abspath(__file__)))

CHECKS = {
    "C01": dict(
        category="model_checking", design_ref="DESIGN.md 4.1",
        text=("TLC checks Lower/Upper/UpperCell/Exact/NAdded on every history of small CountMinLinear instances "
              "(3 keys, all placements, 2-3 slots, merges, save/load, batch and ngram entry points); every explored "
              "transition is replayed on the real class at the real ceiling (values scaled by (2^32-1)/Cap) and "
              "recorded random histories of the real class (arbitrary byte keys, values around 2^32-1 and 2^40, widths "
              "1..64, up to 4 sketches) are validated step by step against the same specification with ghost truth.  The repository's "
              "own linear count-min tests, run unchanged by pytest under a recording plugin (no source change), are validated as "
              "traces of the same specification."),
        note="trusted: TLC, CommunityModules, numpy; key placement observed on probe sketches; exhaustive only for the named small instances",
        technique="TLA+ spec + TLC exhaustive check; edge replay spec->code; trace validation code->spec (exact big naturals), incl. traces recorded from the repository's own tests"),
    "C03": dict(
        category="model_checking", design_ref="DESIGN.md 4.3",
        text=("TLC checks NoOverCell/NoOver/NoGhost on every history of small HeavyHitters instances whose key universe "
              "contains the empty key, an all-NUL key, a NUL-suffixed pair and a key longer than max_key_len; every explored "
              "transition is replayed on the real class for placements observed from the real hash (counts scaled to the real "
              "ceiling), and recorded random histories (widths 1..16, depths 1..4, max_key_len 1..16, up to 4 sketches, merges, "
              "save/load, values around 2^32) are validated step by step with ghost truth per key identity."),
        note="trusted: TLC, CommunityModules, numpy; cell ownership observed on probe sketches; exhaustive only for the named small instances",
        technique="TLA+ spec + TLC exhaustive check; edge replay spec->code; trace validation code->spec"),
    "C04": dict(
        category="model_checking", design_ref="DESIGN.md 4.4",
        text=("TLC checks Dominant (hh[k] >= 2f - W_r and membership in query) and MajorityFirst on every history, partition "
              "and merge order of the small instances incl. width 1; conformance as for C03 (edge replay + validated traces "
              "of the real class, invariants evaluated on every recorded state)."),
        note="saturation excluded as the property states (ghost flag sat); trusted base as C03",
        technique="TLA+ spec + TLC exhaustive check; edge replay; trace validation"),
    "C13": dict(
        category="model_checking", design_ref="DESIGN.md 4.13",
        text=("The candidate-set cache is part of the specification state; TLC checks CacheCoherent and the action property "
              "QueryAnswer (counts = hh[key] >= threshold, non-increasing, distinct, prefix of the unbounded answer, completeness) "
              "on all interleavings of add/merge/query/save-load of the small instance; query edges are replayed on the real "
              "class from real snapshots (cache included) and recorded histories with cache-hit and cache-miss queries are "
              "validated (order of equal counts left free)."),
        note="default threshold floor(phi*n_added) is computed by the harness with float64 arithmetic and logged; trusted base as C03",
        technique="TLA+ spec + TLC exhaustive check; edge replay; trace validation"),
    "C02": dict(
        category="model_checking", design_ref="DESIGN.md 4.2",
        text=("TLC checks UnionSemantics (registers = registers of a fresh sketch fed each distinct key once) and the merge "
              "laws on all orders, duplications, batchings, partitions over up to 3 slots and merge trees of 4 keys under "
              "every placement incl. equal placements and the maximum rank; explored transitions are replayed on the real "
              "class with 8-byte keys constructed (FastHash is a bijection on 8-byte blocks) to hit chosen registers and ranks "
              "1, 2 and 64-p+1 for p 7..16 and boundary seeds; recorded histories are validated with every key's register index "
              "and rank recomputed by Hashes.tla (anchored to SMHasher) incl. the nlz64 branch structure."),
        note="trusted: TLC, Hashes.tla anchor (SMHasher verification value), numpy; query() equality is derived from register equality plus the recorded functional dependence of query() on registers",
        technique="TLA+ spec + TLC exhaustive check; edge replay with constructed keys; trace validation with spec-side hashing"),
    "C11": dict(
        category="model_checking", design_ref="DESIGN.md 4.11",
        text=("Hashes.tla transcribes FastHash64/32 and MurmurHash3_x86_32 over byte-limb words and is anchored, in every run, to "
              "SMHasher's published verification values (0xA16231A7, 0xE9481AFC, 0xB0F57EE3) evaluated by TLC; every recorded call "
              "of the three real functions (all lengths 0..257, biased bytes, boundary seeds, sliced keys, a second interpreter "
              "with another PYTHONHASHSEED, repeated calls; half of them on slice views inside jitted code) is one trace event that "
              "TLC recomputes and compares."),
        note="trusted: SMHasher constants identify the reference algorithms; TLC Bitwise overrides",
        technique="TLA+ transcription of the reference hashes checked by TLC; trace validation of recorded calls"),
    "C05": dict(
        category="model_checking", design_ref="DESIGN.md 4.5",
        text=("Action properties AddEffect (linear) and AddEffectLog (log) are checked by TLC on every add transition of the small "
              "instances (states produced by merges included); every add edge is replayed on the real linear class at the real "
              "ceiling; recorded histories of the three real classes are validated step by step, log draws placed just below/at/"
              "above the decision boundary so that every counter outcome, the one-counter-per-row rule and n_added are decided."),
        note="trusted: TLC, CPython float pow as probability oracle (1e-12 margins), probe-observed placement",
        technique="TLA+ action properties checked by TLC; edge replay; trace validation with placed draws"),
    "C06": dict(
        category="model_checking", design_ref="DESIGN.md 4.6",
        text=("LowerLog/ReservedExact/Fresh on the dyadic log instance (TLC exhaustive); exact Markov-chain check E[decoded]=N "
              "(LogChain.tla); one validated implementation transition per counter value x configuration x placed draw "
              "{0, P(1-1e-12), P(1+1e-12), 1-2^-53} (all 256 log8 counters per configuration, log16 stratified in quick / all 65536 "
              "in thorough); decode table vs closed formula; histories with forced batch refills validating pointer movement, "
              "refill timing and freshness of the new batch."),
        note="uniformity of the generators is trusted; unbiasedness follows from the validated increment law + decode law + freshness (no statistical test)",
        technique="TLA+ spec + TLC; per-transition trace validation with placed draws; exact Markov chain in TLA+"),
    "C09": dict(
        category="model_checking", design_ref="DESIGN.md 4.9",
        text=("MergeEffect/MergeAlgebra (linear) and MergeEffectLog on the small instances by TLC; for every log8 configuration of a "
              "grid all 256x256 counter pairs are merged for real (tables set directly) and each cell is validated against "
              "LogMergeOK (nearest decoded value, exact in the reserved range, ceiling at max_count) with decoded values as exact "
              "integers; log16: every counter vs empty/itself plus sampled pairs; linear and log histories with merges validated."),
        note="decode observed from the implementation (cross-checked with the closed formula in C06); either neighbour accepted within 2^-30 of a midpoint",
        technique="TLA+ spec + TLC; bulk trace validation of merge cells with exact arithmetic"),
    "C12": dict(
        category="model_checking", design_ref="DESIGN.md 4.12",
        text=("Batch entry points are folds of the single add in every module; TLC checks add(k,v) = v unit adds and batch = loop as "
              "state identities on every reachable state; every batch edge is replayed as one real call; batch-heavy histories of "
              "all five classes (lists with repeats, dicts, ngrams with n around len, __getitem__) are validated event by event."),
        note="log sketches: given the recorded draws", technique="TLA+ fold definitions + TLC identities; edge replay; trace validation"),
    "C15": dict(
        category="model_checking", design_ref="DESIGN.md 4.15",
        text=("MergeCompat.tla defines Compatible per family; every ordered pair of a configuration grid (single-parameter variants, "
              "all counter types at equal shape, non-empty operands) is merged for real and TLC validates outcome (TypeError iff "
              "incompatible) and bit-for-bit digests of both operands before/after."),
        note="sha256 digests of all state arrays stand for bit-for-bit equality", technique="TLA+ predicate + trace validation over the full grid"),
    "C18": dict(
        category="model_checking", design_ref="DESIGN.md 4.18",
        text=("Monotone/Saturate action properties on the linear, log and heavy-hitter modules with ceilings reached within 2-3 "
              "operations (TLC exhaustive); scaled edge replay at exactly 2^32-1; validated histories landing within +-3 of the ceiling "
              "and continuing after saturation; constructor grid (max_count 300..2^63 x num_reserved 0..UMax-1): ValueError or the "
              "observed ceiling decodes to max_count (1e-6), decided by TLC on exact integers."),
        note="ill-conditioned grid points (max_count - nr within 1% of UMax - nr) excluded", technique="TLA+ action properties + TLC; edge replay; trace validation"),
    "C10": dict(
        category="model_checking", design_ref="DESIGN.md 4.10",
        text=("PersistLogic.tla states which loader accepts which file; the SaveLoad action of every sketch module states what a load "
              "reproduces.  Real save->load round trips through every loader of the class x loader matrix (random shapes incl. width/"
              "depth 1, non-default max_count/num_reserved/phi, seeds >= 2^63, shared_memory on/off) are validated by TLC: class, "
              "public parameters, state digests, every observer, merges in both directions, TypeError for another counter type; "
              "save->load->continue chains run inside the validated histories of all five classes."),
        note="state equality through sha256 digests of all arrays; observers hashed as text",
        technique="TLA+ spec of loader acceptance + SaveLoad actions; trace validation of real round trips and continued histories"),
    "C20": dict(
        category="model_checking", design_ref="DESIGN.md 4.20",
        text=("Persist.tla models the zip writer byte by byte (header patched after the data, directory after all members, EOCD last) "
              "with a crash after any byte and the reader's acceptance condition; TLC checks CommitLast for several layouts.  Each saved "
              "file is parsed into the model's regions (premise checked) and EVERY byte-offset prefix is passed to the class loader "
              "and the module-level load(): TLC validates that only the complete file loads, and to the saved sketch."),
        note="torn images (unpatched header with later bytes present) are explored in the model only",
        technique="TLA+ crash-point model checked by TLC; exhaustive prefix enumeration validated as a trace"),
    "C08": dict(
        category="model_checking", design_ref="DESIGN.md 4.8",
        text=("ParallelAdd.tla models the bounded queue, the filler, N workers, the polling monitor, joins and pairwise merge rounds, "
              "one action per blocking point.  TLC checks ExactlyOnce / ResultIsWholeStream / QueueBounded on every schedule and "
              "Termination under weak fairness (N 1..4, up to 5-6 items).  Each terminal outcome (a dequeue assignment) is replayed "
              "against the REAL parallel_add/_worker/_fill_queue/parallel_merging code and real shared-memory sketches under a "
              "deterministic in-process scheduler; the returned HLL is compared register for register with the sequential sketch, "
              "n_added/n_records with the specification, and the returned cms/hh tables are validated by the sketch trace specs "
              "(C01/C03/C04 invariants against the whole stream).  Worker counts 5..9 exercise the carried-over sketch.  Real spawned "
              "runs (generator input) are validated against the specification under their recorded assignment."),
        note="trusted: the in-process stand-in for multiprocessing (fakemp, ~250 lines), cross-checked by real spawned runs; FIFO queue",
        technique="TLA+ spec + TLC (safety and liveness); replay of TLC terminal outcomes into the real code; trace validation of real runs"),
    "C19": dict(
        category="model_checking", design_ref="DESIGN.md 4.19",
        text=("ParallelAdd.tla with fault actions: callbacks raising before/after touching the sketches on chosen items and one worker "
              "dying on its k-th item.  TLC checks RaiseKeepsOthers, DeathNeverReturns and Termination on all schedules; the terminal "
              "outcomes are replayed against the real worker and monitor loops in-process (a hang of the real code is detected as "
              "'no runnable process'); a real spawned run with os._exit(1) in a worker must end in an exception within a time bound.  "
              "Growth: a merge process killed by the system, and LogChannel.tla (the log process as a refinement of ParallelAdd)."),
        note="in-process death = uncaught BaseException in the worker thread (exit code 1); the monitor pass is modelled as atomic",
        technique="TLA+ spec with fault actions + TLC; replay of outcomes into the real code; real fault-injection run"),
    "C14": dict(
        category="exploration", design_ref="DESIGN.md 4.14",
        text=("Narrowed claim.  Exact mechanism: the column every count-min class and the heavy hitters assign to (key, row) is "
              "validated against Hashes.tla (FastHash64(key, row) % width) for random keys x rows 0..7 x widths {4,16,32,128}; if it "
              "holds the rows are FastHash64 under distinct seeds.  This stage never alarms alone; the deciding stage is a tolerant "
              "acceptance test evaluated by TLC on recorded data: joint column counts of every pair of rows within [1/2, 2] of "
              "expectation (width 4 at depths 3..8, and 256x16, 16x32, 65536x8, 1024x12 sketches on the low and high column bits, i.e. "
              "beyond 64 hash bits per key) and a Zipf stream inside the documented exp(-depth) bound."),
        note="a statistical acceptance test (>= 8 sigma margins) wrapped around an exact mechanism check; independence of FastHash64 under distinct seeds is an external fact",
        technique="trace validation of the placement equation against the TLA+ hash specification; tolerant counting predicate evaluated by TLC"),
    "C16": dict(
        category="model_checking", design_ref="DESIGN.md 4.16",
        text=("SharedMem.tla: one owner, up to two attached views, operations through any live handle, all deletion orders; TLC checks "
              "OneState, OwnerUnlinks, ViewNeverUnlinks, AttachFailsAfterUnlink and the layout identities.  Behaviours of the explored "
              "graph are replayed on real shared-memory sketches of all five classes with odd byte sizes (attach_shared_memory and "
              "attach_existing_shm), an in-memory twin receiving the same operations; after every step every live handle and the twin "
              "are compared and /dev/shm is inspected."),
        note="log sketches stay inside the reserved range (deterministic); state equality through digests",
        technique="TLA+ spec + TLC; replay of specification behaviours on real shared memory"),
    "C17": dict(
        category="model_checking", design_ref="DESIGN.md 4.17",
        text=("HLLQuery.tla states the regime decision (linear counting / bias-corrected with zero registers / bias-corrected up to 5m / "
              "raw) and the estimate; TLC checks the shipped tables (strictly increasing, raw[1]-bias[1] = threshold) and validates one "
              "recorded query() per register array: regime decided exactly, interpolation segment located in the tables, answer within "
              "2^-30 relative (two thirds of the states reached on objects that already answered a query, by merge or register writes).  Arrays from real key sets and synthetic arrays hit all 40 regime x precision cells and both sides of "
              "both boundaries (a missing cell fails the run as vacuous)."),
        note="real-valued ingredients (ln, exact rational raw estimate and interpolated bias) are computed by the harness with CPython math/fractions and enter TLC as exact integers",
        technique="TLA+ decision structure + trace validation of recorded evaluations (one per transition of the case analysis)"),
}

NOT_APPLICABLE = {
    "C07": "statistical accuracy envelope of the HLL++ estimator on random key sets: a numeric/statistical statement a TLA+ state machine cannot decide; its implementation-level ingredients are decided by C02, C11 and C17",
}

PENDING = "check under construction in this round; not claimed until its specification and conformance harness are committed"


def main():
    props = [json.loads(l)["id"] for l in open(os.path.join(VERIF, "properties.jsonl"))]
    checks = []
    for pid in props:
        c = CHECKS.get(pid)
        if not c:
            continue
        checks.append({
            "property_id": pid,
            "quick_cmd": "./check %s --tier quick" % pid,
            "thorough_cmd": "./check %s --tier thorough" % pid,
            "evidence_file": "evidence/%s.json" % pid,
            "replay_cmd_template": "./check %s --replay {path}" % pid,
            "engine": "tla-mbv",
            "level_claimed": {"category": c["category"], "text": c["text"], "design_ref": c["design_ref"]},
            "level_note": c["note"],
            "technique": c["technique"],
        })
    na = []
    for pid in props:
        if pid in CHECKS:
            continue
        na.append({"property_id": pid, "reason": NOT_APPLICABLE.get(pid, PENDING)})
    man = {
        "version": 1,
        "setup_cmd": "sh ./setup.sh",
        "hooks": {
            "guard": "SKETCHNU_VERIF",
            "enable": "no source hooks: the checks set SKETCHNU_VERIF=1 for their own process and wrap/record public calls from the harness side (harness/impl.py); /repo is imported from its working tree",
            "baseline_off_cmd": "cd /repo && /venv/bin/python -m pytest -ra -q -p no:cacheprovider --timeout=900 --continue-on-collection-errors",
            "source_commits": [],
            "add_only": True,
        },
        "engines": [{
            "name": "tla-mbv", "path": "spec/ + harness/",
            "serves_properties": sorted(CHECKS),
            "kind_free_text": "explicit TLA+ specification (spec/*.tla) checked by TLC; conformance by replaying TLC-explored transitions into the real classes and by validating recorded executions of the real code against the specification",
        }],
        "checks": checks,
        "not_applicable": na,
        "notes": "See DESIGN.md. known_findings.json lists genuine defects (fixed / known).",
    }
    with open(os.path.join(VERIF, "MANIFEST.json"), "w") as f:
        json.dump(man, f, indent=1)
    print("MANIFEST.json: %d checks, %d not claimed" % (len(checks), len(na)))


if __name__ == "__main__":
    main()
