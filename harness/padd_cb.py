"""The user callback handed to parallel_add by the C08/C19 drivers.  Importable from spawned
worker processes (PYTHONPATH contains this directory).  An item is a dict
  {"id": i, "ops": [[key_bytes, multiplicity], ...], "fault": "ok"|"before"|"after", "ret": r}
In-process runs set CTL (scheduler, die spec); real spawned workers see CTL = None."""
import os

CTL = None
DEATHS = 0


class SilentInt(int):
    """An item that cannot be rendered as text (helpers._fill_queue explicitly allows for items whose
    str() raises: it only needs the text for a log line)."""

    def __str__(self):
        raise ValueError("this item has no text form")

    __repr__ = __str__


class CallbackError(Exception):
    pass


ORDER = {"CountMinLinear": 0, "CountMinLog16": 0, "CountMinLog8": 0, "HeavyHitters": 1, "HyperLogLog": 2}


def cb(item, *sketches, logdir=None, die_item=None, tag=None, expect=None, table=None, expect_params=None):
    # items travel as small integers 0..K-1 (indices into `table`, like file numbers or offsets in
    # real use; note that the first one is falsy); the specification numbers them 1..K
    if table is not None:
        item = table[item]
    # the documented contract: the sketches arrive in alphabetical order cms, hh, hll, and the
    # keyword arguments given to parallel_add are passed through
    kinds = [ORDER.get(type(s).__name__, 9) for s in sketches]
    if kinds != sorted(kinds) or len(set(kinds)) != len(kinds) or (expect is not None and len(sketches) != expect):
        raise CallbackError("sketches passed as %s" % [type(s).__name__ for s in sketches])
    if expect_params:
        # the sketches a worker is handed are configured as the caller asked
        for sk in sketches:
            for name, want in expect_params.get(type(sk).__name__, {}).items():
                if int(getattr(sk, name)) != want:
                    raise CallbackError("worker-side %s has %s=%s, the caller asked for %s" % (type(sk).__name__, name, getattr(sk, name), want))
    if tag != "tag-%d" % len(sketches):
        raise CallbackError("keyword argument tag=%r not passed through" % (tag,))
    if CTL is not None:
        sched, die_at, counts = CTL
        import fakemp
        w = fakemp.current_worker(sched)
        counts[w] = counts.get(w, 0) + 1
        sched.yield_point()      # processing takes time: other processes may run between dequeue and update
        if die_at is not None and die_at[:2] == (w, counts[w]):
            if len(die_at) > 2 and die_at[2] == "late":
                # a slow item: the worker dies only after every other worker has exited and the
                # monitor has had several more passes
                me = sched.me()
                others = [t for t in sched.threads if t.proc is not None and t.proc.worker_id is not None and t is not me]
                sched.yield_point(lambda: all(t.finished or t.killed for t in others))
                for _ in range(6):
                    sched.yield_point()
            global DEATHS
            DEATHS += 1
            death = fakemp.WorkerDeath("worker %s dies on its item #%d" % (w, counts[w]))
            death.code = (1, -9, 3, -15)[DEATHS % 4]          # os._exit(k) and deaths by a signal (OOM killer: -9)
            raise death
    else:
        if logdir:
            with open(os.path.join(logdir, "deq.%d" % os.getpid()), "a") as f:
                f.write("%d\n" % item["id"])
        if die_item is not None and item["id"] == die_item:
            os._exit(1)
    if item["fault"] == "before":
        raise failure(item["id"], "before touching the sketches")
    for sk in sketches:
        for key, mult in item["ops"]:
            sk.add(bytes(key), mult)
    if item["fault"] == "after":
        raise failure(item["id"], "after updating the sketches")
    return item["ret"]


def failure(i, when):
    """User callbacks fail in many shapes: with a message, without arguments (bare assert,
    KeyError(), StopIteration), with non-string arguments, OSError-style."""
    shapes = [CallbackError("item %d fails %s" % (i, when)), KeyError(), AssertionError(), StopIteration(),
              ValueError(i), OSError(2, "No such file"), ZeroDivisionError("division by zero"),
              UnicodeDecodeError("utf-8", b"\xff", 0, 1, "invalid start byte"), IndexError()]
    return shapes[i % len(shapes)]
