"""CountMinLinear: exhaustive model checking, trace validation (code -> spec) and edge
replay (spec -> code) against spec/CountMinLinear.tla."""
import json
import os
import random

import numpy as np

import common
from common import run_tlc, workdir, MachineryError
import impl
from impl import big, kb, CAP32

MODULE_MC = "MC_CountMinLinear"
MODULE_TR = "Trace_CountMinLinear"

MC_CONSTS = """SPECIFICATION Spec
CONSTANTS
  NAdd <- IntAdd
  NSub <- IntSub
  NLt <- IntLt
  NOf <- IntOf
  NCap <- MCap
  MW = {W}
  MD = {D}
  MCap = {Cap}
  MaxTruth = {MaxTruth}
  MSlots = {Slots}
  EnvIdx = {EnvIdx}
  Slots <- MSlotSet
  EnvChoices <- MEnvChoices
  AddVals <- MAddVals
  Lists <- MLists
  Dicts <- MDicts
  NgramArgs <- MNgramArgs
  RecVals <- MRecVals
VIEW view
CONSTRAINT Bound
CHECK_DEADLOCK FALSE
"""

TR_CONSTS = """SPECIFICATION TSpec
CONSTANTS
  NAdd <- DigAdd
  NSub <- DigSub
  NLt <- DigLt
  NOf <- DigOf
  NCap <- BigCap32
  Slots <- TSlots
  EnvChoices = {}
  AddVals = {}
  Lists = {}
  Dicts = {}
  NgramArgs = {}
  RecVals = {}
CHECK_DEADLOCK TRUE
INVARIANT TraceOK
"""

ALL_INVS = ["Lower", "Upper", "UpperCell", "Exact", "NAdded", "CellsBelowCap", "MergeAlgebra"]
ALL_PROPS = ["AddEffectProp", "MonotoneProp", "MergeEffectProp"]


write_cfg = common.write_cfg


# ----------------------------------------------------------------------------- MC

def model_check(report, invs, props, W=2, D=2, Cap=3, MaxTruth=4, Slots=2, tag="lin"):
    cfg = write_cfg("mc_%s.cfg" % tag, MC_CONSTS.format(W=W, D=D, Cap=Cap, MaxTruth=MaxTruth,
                                                        Slots=Slots, EnvIdx="{}"), invs, props)
    r = run_tlc(MODULE_MC, cfg, tag=tag)
    inst = "CountMinLinear W=%d D=%d Cap=%d slots=%d keys=3 total-truth<=%d, all placements" % (
        W, D, Cap, Slots, MaxTruth)
    report.add_tlc(MODULE_MC, r, inst)
    if not r.ok:
        report.violation("model: %s %s violated on %s" % (r.kind, r.violated, inst),
                         {"kind": "model", "module": MODULE_MC, "violated": r.violated,
                          "last_state": r.last_state, "signature": {"model": r.violated}})
    return r


# -------------------------------------------------------------------------- traces

class LinRecorder:
    """Runs real CountMinLinear objects and records one event per public call with the
    projected state of every slot after the call."""

    def __init__(self, W, D, NS, rng):
        self.W, self.D, self.NS = W, D, NS
        self.rng = rng
        # sketches are built through every documented route: the class, the class with its default
        # depth, the CountMin() factory (positional and keyword forms)
        def build(i):
            cm = impl.countmin
            if D == 8 and i % 2 == 0:
                return cm.CountMinLinear(W)
            return [lambda: cm.CountMinLinear(W, D), lambda: cm.CountMin("linear", W, D),
                    lambda: cm.CountMin("linear", width=W, depth=D, max_count=77, num_reserved=3),
                    lambda: cm.CountMinLinear(width=W, depth=D, shared_memory=False)][i % 4]()
        self.slots = [build(i) for i in range(NS)]
        for sk in self.slots:
            if type(sk) is not impl.countmin.CountMinLinear or int(sk.width) != W or int(sk.depth) != D:
                raise MachineryError("constructor returned %r %sx%s for %dx%d" % (type(sk), sk.width, sk.depth, W, D))
        self.keys = {}
        self.events = []

    def key(self, k):
        if k not in self.keys:
            self.keys[k] = impl.cm_cols(lambda: impl.countmin.CountMinLinear(self.W, self.D), k)
        return kb(k)

    def post(self):
        return [impl.proj_linear(s) for s in self.slots]

    def emit(self, ev):
        ev["post"] = self.post()
        self.events.append(ev)

    # one method per public entry point -----------------------------------------
    def add(self, s, k, v):
        self.key(k)
        self.slots[s].add(k, v)
        self.emit({"ev": "add", "s": s + 1, "k": kb(k), "v": big(v)})

    def add_default(self, s, k):
        self.key(k)
        self.slots[s].add(k)
        self.emit({"ev": "add", "s": s + 1, "k": kb(k), "v": big(1)})

    def update_list(self, s, ks):
        for k in ks:
            self.key(k)
        form = len(self.events) % 3          # a list, a tuple, a generator: any iterable of keys
        self.slots[s].update(list(ks) if form == 0 else tuple(ks) if form == 1 else (k for k in ks))
        self.emit({"ev": "update_list", "s": s + 1, "ks": [kb(k) for k in ks]})

    def update_dict(self, s, kvs):
        d = {}
        for k, v in kvs:
            self.key(k)
            d[k] = v
        if len(self.events) % 2:
            import collections
            d = collections.Counter(d)       # "follows the convention of collections.Counter"
        self.slots[s].update(d)
        self.emit({"ev": "update_dict", "s": s + 1, "kvs": [[kb(k), big(v)] for k, v in d.items()]})

    def windows(self, key, n):
        if len(key) <= n:
            return [key]
        return [key[i:i + n] for i in range(len(key) - n + 1)]

    def add_ngram(self, s, key, n):
        for w in self.windows(key, n):
            self.key(w)
        self.slots[s].add_ngram(key, n)
        self.emit({"ev": "add_ngram", "s": s + 1, "key": kb(key), "n": n})

    def update_ngram(self, s, keys, n):
        for key in keys:
            for w in self.windows(key, n):
                self.key(w)
        self.slots[s].update_ngram(list(keys), n)
        self.emit({"ev": "update_ngram", "s": s + 1, "keys": [kb(k) for k in keys], "n": n})

    def merge(self, s, t):
        if int(self.slots[s].n_added_records[0]) + int(self.slots[t].n_added_records[0]) >= 2**62:
            return                       # uint64 bookkeeping would wrap: outside every property's range
        try:
            self.slots[s].merge(self.slots[t])
        except TypeError as exc:
            # same-shaped sketches must merge; after a faulty load they may not (judged by C10/C15)
            if impl.STRICT_PERSIST:
                self.emit({"ev": "merge_refused", "s": s + 1, "t": t + 1, "exc": repr(exc)[:200]})
            return
        self.emit({"ev": "merge", "s": s + 1, "t": t + 1})

    def saveload(self, s, t, how=0):
        p = impl.tmpfile()
        try:
            self.slots[s].save(p)
            if how == 0:
                new = impl.countmin.CountMinLinear.load(p)
            elif how == 1:
                new = impl.countmin.load(p)
            else:
                new = impl.countmin.load(p, shared_memory=True)
            if type(new) is not impl.countmin.CountMinLinear:
                raise TypeError("load returned %r" % type(new))
        except Exception as exc:
            if impl.STRICT_PERSIST:
                self.emit({"ev": "saveload_failed", "s": s + 1, "t": t + 1, "exc": repr(exc)[:200]})
            return
        finally:
            if os.path.exists(p):
                os.unlink(p)
        self.slots[t] = new
        self.emit({"ev": "saveload", "s": s + 1, "t": t + 1})

    def add_records(self, s, n):
        self.slots[s].n_added_records[1] += np.uint64(n)
        self.emit({"ev": "add_records", "s": s + 1, "n": big(n)})

    def query(self, s, k, getitem=False):
        self.key(k)
        out = self.slots[s][k] if getitem else self.slots[s].query(k)
        self.emit({"ev": "query", "s": s + 1, "k": kb(k), "out": big(out)})

    def trace(self):
        return {"W": self.W, "D": self.D, "NS": self.NS,
                "keys": [{"b": kb(k), "cols": c} for k, c in self.keys.items()],
                "events": self.events}


ADD_VALUES = [0, 1, 1, 1, 2, 3, 7, 100, 65535, 2**31 - 1, 2**31, 2**32 - 4, 2**32 - 3,
              2**32 - 2, 2**32 - 1, 2**32, 2**32 + 1, 2**32 + 2, 2**40]


def random_history(rng, focus=None, n_events=None):
    """One random history on up to 4 real sketches.  focus biases the operation mix:
    None (all), 'ceiling' (values around 2^32-1, repeated after saturation), 'batch'
    (update/ngram entry points), 'merge'."""
    W = rng.choice([1, 1, 2, 2, 3, 4, 5, 8, 13, 16, 32, 64])
    D = rng.choice([1, 1, 2, 2, 3, 4, 8, 8])
    if W * D > 128:
        D = max(1, 128 // W)
    NS = rng.choice([1, 2, 2, 3, 4])
    rec = LinRecorder(W, D, NS, rng)
    pool = impl.special_keys(rng)
    keys = rng.sample(pool, rng.randint(2, min(9, len(pool))))
    n = n_events or rng.randint(8, 30)
    near = [CAP32 - 3, CAP32 - 2, CAP32 - 1, CAP32, CAP32 + 1, CAP32 + 2, CAP32 + 3, 1, 2, 3, 2**40]
    for _ in range(n):
        s = rng.randrange(NS)
        t = rng.randrange(NS)
        k = rng.choice(keys)
        x = rng.random()
        if focus == "ceiling":
            if x < 0.55:
                rec.add(s, k, rng.choice(near))
            elif x < 0.8:
                rec.merge(s, t)
            elif x < 0.9:
                rec.query(s, k)
            else:
                rec.saveload(s, t, rng.randrange(3)) if s != t else rec.add(s, k, 1)
            continue
        if focus == "batch":
            x = 0.3 + 0.45 * rng.random() if rng.random() < 0.75 else x
        if focus == "merge" and rng.random() < 0.4:
            x = 0.8
        if x < 0.30:
            rec.add(s, k, rng.choice(ADD_VALUES))
        elif x < 0.36:
            rec.add_default(s, k)
        elif x < 0.46:
            rec.update_list(s, [rng.choice(keys) for _ in range(rng.randint(0, 6))])
        elif x < 0.56:
            rec.update_dict(s, [(rng.choice(keys), rng.choice([1, 2, 3, 10, 10**4, 2**32, 2**33]))
                                for _ in range(rng.randint(0, 4))])
        elif x < 0.66:
            key = rng.choice(keys + [b"abcabc", b"aaaa", b"\x00\x00\x00", b"ab\x00ab"])
            key = key[:12]
            nn = rng.choice([1, 2, 3, max(1, len(key) - 1), max(1, len(key)), len(key) + 1, len(key) + 2])
            rec.add_ngram(s, key, nn)
        elif x < 0.72:
            ks = [rng.choice(keys + [b"abab", b"\x00\x00a"])[:8] for _ in range(rng.randint(0, 3))]
            rec.update_ngram(s, ks, rng.choice([1, 2, 3, 4]))
        elif x < 0.84:
            rec.merge(s, t)
        elif x < 0.90:
            if s != t:
                rec.saveload(s, t, rng.randrange(3))
            else:
                rec.query(s, k, getitem=True)
        elif x < 0.93:
            rec.add_records(s, rng.choice([0, 1, 5, 1000]))
        else:
            rec.query(s, k, getitem=rng.random() < 0.5)
    # observers on every key at the end (hidden state would show up here)
    for s in range(NS):
        for k in list(rec.keys)[:6]:
            rec.query(s, k)
    return rec.trace()


def validate(report, traces, invs, props, tag="lintr", timeout=1500):
    return common.validate_traces(report, MODULE_TR, TR_CONSTS, traces, invs, props, tag, "cm_linear", timeout=timeout)


# ------------------------------------------------------------- spec -> code replay

def export_edges(report, W, D, Cap, MaxTruth, Slots, unit_ops, tag, small=False, env_idx=()):
    base = MC_CONSTS.format(W=W, D=D, Cap=Cap, MaxTruth=MaxTruth, Slots=Slots,
                            EnvIdx="{" + ", ".join(str(i) for i in env_idx) + "}")
    if small:
        base = base.replace("AddVals <- MAddVals", "AddVals <- MAddValsSmall").replace(
            "Dicts <- MDicts", "Dicts <- MDictsSmall")
    if not unit_ops:
        base = base.replace("Lists <- MLists", "Lists <- MNone").replace(
            "NgramArgs <- MNgramArgs", "NgramArgs <- MNone")
    cfg = write_cfg("edges_%s.cfg" % tag, base, [], [], "ACTION_CONSTRAINT LogEdge\n")
    r = run_tlc(MODULE_MC, cfg, workers=1, tag=tag)
    if not r.ok:
        raise MachineryError("edge export run failed: %s" % r.violated)
    edges = []
    for p in r.prints:
        if p.startswith('<<"EDGE"'):
            edges.append(json.loads(common.tla_string_payloads(p)[1]))
    if len(edges) < r.distinct - 64:
        raise MachineryError("exported %d edges but TLC found %d distinct states" % (len(edges), r.distinct))
    report.add_tlc(MODULE_MC + "(edge export)", r,
                   "W=%d D=%d Cap=%d slots=%d total-truth<=%d unit_ops=%s" % (W, D, Cap, Slots, MaxTruth, unit_ops))
    return edges


def realise_keys(W, D, col, rng, variant):
    """Map each abstract key (a tuple) to real byte strings whose OBSERVED columns on a probe
    sketch equal the model's placement.  Single-byte model keys <<1>>, <<2>> and the two-byte
    key <<1,2>> must keep their ngram structure, so a realisation is a choice of two byte
    values a, b: <<1>> -> a, <<2>> -> b, <<1,2>> -> ab."""
    want = {tuple(k): tuple(v) for k, v in col}
    mk = lambda: impl.countmin.CountMinLinear(W, D)
    cache = {}

    def cols(key):
        if key not in cache:
            cache[key] = tuple(impl.cm_cols(mk, key))
        return cache[key]
    order = list(range(256))
    random.Random(variant * 7919 + 13).shuffle(order)
    if variant == 0:
        order = [0, 255, 128] + [x for x in order if x not in (0, 255, 128)]
    for a in order:
        ka = bytes([a])
        if cols(ka) != want[(1,)]:
            continue
        for b in order:
            kb_ = bytes([b])
            if b == a or cols(kb_) != want[(2,)]:
                continue
            if cols(ka + kb_) == want[(1, 2)]:
                return {(1,): ka, (2,): kb_, (1, 2): ka + kb_}
    return None


_POOL = {}


def _restore(snap, W, D):
    """Real objects holding a snapshot taken from real execution (objects are reused; a
    slot replaced by load() is re-created)."""
    pool = _POOL.setdefault((W, D), [])
    while len(pool) < len(snap):
        pool.append(impl.countmin.CountMinLinear(W, D))
    objs = []
    for i, (cms, nar) in enumerate(snap):
        o = pool[i]
        o.cms[:] = cms
        o.n_added_records[:] = nar
        objs.append(o)
    return objs


def _snap(objs):
    return [(o.cms.copy(), o.n_added_records.copy()) for o in objs]


def _proj_scaled(objs, S):
    res = []
    for o in objs:
        t = o.cms.astype(object)
        res.append({"tbl": [[int(x) for x in row] for row in t.tolist()],
                    "nadd": int(o.n_added_records[0]), "nrec": int(o.n_added_records[1])})
    return res


def replay_edges(report, edges, Cap, scaled, rng, variants=2):
    """Drive the real class along every exported transition, from real snapshots of the
    pre-state reached by real execution, and compare the complete projected post-state."""
    S = (CAP32 // Cap) if scaled else 1
    if scaled and CAP32 % Cap:
        raise MachineryError("Cap %d does not divide 2^32-1" % Cap)
    by_env = {}
    for e in edges:
        by_env.setdefault(json.dumps(e["e"], sort_keys=True), []).append(e)
    n_done = 0
    for envj, es in by_env.items():
        env = json.loads(envj)
        W, D = env["W"], env["D"]
        for variant in range(variants):
            real = realise_keys(W, D, env["col"], rng, variant)
            if real is None:
                continue      # placement not realisable with 1-byte keys at this width: skip
            def model_state(f):
                return [{"tbl": [[c * S for c in row] for row in s["tbl"]],
                         "nadd": s["nadd"] * S, "nrec": s["nrec"]} for s in f]
            out = {}
            for e in es:
                out.setdefault(json.dumps(e["f"], sort_keys=True), []).append(e)
            init = [e for e in es if all(all(c == 0 for row in s["tbl"] for c in row) and
                                         s["nadd"] == 0 and s["nrec"] == 0 for s in e["f"])]
            if not init:
                raise MachineryError("no edge leaves the initial state")
            NS = len(init[0]["f"])
            start = json.dumps(init[0]["f"], sort_keys=True)
            snaps = {start: _snap([impl.countmin.CountMinLinear(W, D) for _ in range(NS)])}
            queue = [start]
            while queue:
                node = queue.pop()
                for e in out.get(node, []):
                    objs = _restore(snaps[node], W, D)
                    o = e["o"]
                    name = o["name"]
                    s = objs[o["s"] - 1] if "s" in o else None
                    if name == "add":
                        s.add(real[tuple(o["k"])], o["v"] * S)
                    elif name == "update_list":
                        s.update([real[tuple(k)] for k in o["ks"]])
                    elif name == "update_dict":
                        s.update({real[tuple(k)]: v * S for k, v in o["kvs"]})
                    elif name == "add_ngram":
                        key = b"".join(real[(b,)] for b in o["key"])
                        s.add_ngram(key, o["n"])
                    elif name == "merge":
                        s.merge(objs[o["t"] - 1])
                    elif name == "saveload":
                        p = impl.tmpfile()
                        s.save(p)
                        objs[o["t"] - 1] = impl.countmin.load(p)
                        os.unlink(p)
                    elif name == "add_records":
                        s.n_added_records[1] += np.uint64(o["n"])
                    elif name == "query":
                        got = int(s.query(real[tuple(o["k"])]))
                        if got != o["out"] * S:
                            report.violation(
                                "edge replay: query returned %d, specification %d" % (got, o["out"] * S),
                                {"kind": "edge", "env": env, "edge": e, "keys": {str(k): list(v) for k, v in real.items()},
                                 "scale": S, "signature": {"edge_op": name}})
                            return False
                    else:
                        raise MachineryError("unknown op %s" % name)
                    got = _proj_scaled(objs, S)
                    exp = model_state(e["t"])
                    n_done += 1
                    report.count_action("replay:" + name)
                    if got != exp:
                        report.violation(
                            "edge replay: after %s the implementation state differs from the specification: got %s expected %s"
                            % (json.dumps(o), json.dumps(got), json.dumps(exp)),
                            {"kind": "edge", "env": env, "edge": e, "keys": {str(k): list(v) for k, v in real.items()},
                             "scale": S, "got": got, "expected": exp, "signature": {"edge_op": name}})
                        return False
                    tn = json.dumps(e["t"], sort_keys=True)
                    if tn not in snaps:
                        snaps[tn] = _snap(objs)
                        queue.append(tn)
            report.sample({"replayed_placement": env["col"], "keys": {str(k): list(v) for k, v in real.items()},
                           "scale": S, "edges": len(es)}, limit=3)
    report.cov["edges_replayed"] = report.cov.get("edges_replayed", 0) + n_done
    report.cov["traces_validated_against_impl"] += n_done
    return True


def rerun(trace):
    """Re-execute a recorded trace's operations against the current tree (for --replay)."""
    rec = LinRecorder(trace["W"], trace["D"], trace["NS"], None)
    for e in trace["events"]:
        s = e.get("s", 1) - 1
        ev = e["ev"]
        if ev == "add":
            rec.add(s, bytes(e["k"]), impl.unbig(e["v"]))
        elif ev == "update_list":
            rec.update_list(s, [bytes(k) for k in e["ks"]])
        elif ev == "update_dict":
            rec.update_dict(s, [(bytes(k), impl.unbig(v)) for k, v in e["kvs"]])
        elif ev == "add_ngram":
            rec.add_ngram(s, bytes(e["key"]), e["n"])
        elif ev == "update_ngram":
            rec.update_ngram(s, [bytes(k) for k in e["keys"]], e["n"])
        elif ev == "merge":
            rec.merge(s, e["t"] - 1)
        elif ev == "saveload":
            rec.saveload(s, e["t"] - 1)
        elif ev == "add_records":
            rec.add_records(s, impl.unbig(e["n"]))
        elif ev == "query":
            rec.query(s, bytes(e["k"]))
    return rec.trace()
