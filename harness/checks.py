"""One function per property: what is model checked, what is replayed into the real code,
which recorded executions are validated.  See DESIGN.md section 4."""
import json
import random

import common
from common import Report, SEED
import impl

impl.patch_sleep()


def _rng(prop):
    return random.Random("%s-%d" % (prop, SEED))


def replay(prop, path):
    """Re-execute a recorded violation against the current tree."""
    with open(path) as f:
        obj = json.load(f)
    rep = Report(prop, "quick")
    rep.known_findings = []
    kind = obj.get("kind")
    mod = __import__(obj["driver"]) if kind == "trace" and obj.get("driver") else None
    if mod is not None and hasattr(mod, "rerun"):
        tr = mod.rerun(obj["trace"])
        if obj["driver"] == "hll":
            mod.validate(rep, [tr], obj.get("invs", []), tag="replay")
        else:
            mod.validate(rep, [tr], obj.get("invs", []), obj.get("props", []), tag="replay")
    else:
        print("replay of kind %s: re-running the quick check instead" % kind)
        return globals()["check_" + prop]("quick")
    print("replay: %s" % ("violation reproduced" if rep.violations else "no violation on the current tree"))
    return 1 if rep.violations else 0


# ------------------------------------------------------------------------- C01

def check_C01(tier):
    import cm_linear as L
    rep = Report("C01", tier)
    rng = _rng("C01")
    invs = ["Lower", "Upper", "UpperCell", "Exact", "NAdded", "CellsBelowCap"]
    quick = tier == "quick"
    # (1) design: exhaustive model checking of the bounds on every history of the small instance
    L.model_check(rep, invs, [], W=2, D=2, Cap=3, MaxTruth=3 if quick else 5, Slots=2, tag="c01mc")
    if not quick:
        L.model_check(rep, invs, [], W=3, D=1, Cap=5, MaxTruth=5, Slots=2, tag="c01mc2")
        L.model_check(rep, invs, [], W=1, D=2, Cap=3, MaxTruth=4, Slots=3, tag="c01mc3")
    # (2) spec -> code: every explored transition replayed on the real class at the real ceiling
    idx = sorted(rng.sample(range(1, 17), 3) + [1, 16]) if quick else []
    edges = L.export_edges(rep, 2, 2, 3, 3, 2, False, "c01ea", small=quick, env_idx=idx)
    L.replay_edges(rep, edges, 3, True, rng, variants=1 if quick else 3)
    edges = L.export_edges(rep, 2, 2, 1000, 2 if quick else 3, 2, True, "c01eb", small=True,
                           env_idx=idx[:3] if quick else [])
    L.replay_edges(rep, edges, 1000, False, rng, variants=1 if quick else 2)
    # (3) code -> spec: recorded random histories validated by TLC with the ghost truth
    n = 60 if quick else 600
    traces = [L.random_history(rng, focus=rng.choice([None, None, "ceiling", "merge"])) for _ in range(n)]
    for i in range(0, n, 150):
        L.validate(rep, traces[i:i + 150], invs, [], tag="c01tr%d" % i)
    rep.sample({"trace_keys": traces[0]["keys"][:3], "trace_events": traces[0]["events"][:2]})
    # (4) code -> spec on the repository's OWN tests: the linear count-min tests of tests/test_countmin.py run
    # under the recording plugin (harness/suite_rec.py), every recorded call validated like (3)
    import suite
    suite.validate(rep, quick, tag="c01suite")
    rep.cov["exhaustive"] = True
    rep.cov["rule"] = ("TLC: all histories of the named small instances; edge replay: every exported transition; "
                       "traces: random histories on real sketches, each event distinct by construction; traces recorded "
                       "from the repository's own linear count-min tests")
    rep.cov["distinct_nontrivial"] = rep.cov["states"]
    rep.assumptions += ["columns of a key are observed on an empty probe sketch (not recomputed)",
                        "TLC 1.8 and the CommunityModules Json/IOUtils overrides"]
    return rep.finish()


# ------------------------------------------------------------- C03 / C04 / C13

def _hh_common(prop, tier, invs, props, focus, query_mc):
    import hh as H
    rep = Report(prop, tier)
    rng = _rng(prop)
    quick = tier == "quick"
    # (1) design level
    if query_mc:
        H.model_check(rep, invs, props, tag=prop + "mcq", W=2, D=1, Cap=5, MaxTruth=3, Slots=1, query=True)
        if not quick:
            H.model_check(rep, invs, props, tag=prop + "mcq2", W=1, D=2, Cap=5, MaxTruth=3, Slots=1, query=True)
            H.model_check(rep, invs, props, tag=prop + "mcq3", W=2, D=1, Cap=5, MaxTruth=3, Slots=2, query=True,
                          small=True, unit_ops=False)
    else:
        H.model_check(rep, invs, props, tag=prop + "mc", W=2, D=1, Cap=5, MaxTruth=3 if quick else 4, Slots=2)
        H.model_check(rep, invs, props, tag=prop + "mcw1", W=1, D=2, Cap=5, MaxTruth=3 if quick else 4, Slots=2)
        if not quick:
            H.model_check(rep, invs, props, tag=prop + "mcd2", W=2, D=2, Cap=5, MaxTruth=3, Slots=2,
                          env_idx=sorted(rng.sample(range(1, 65), 12)))
    # (2) spec -> code on placements observed from the real hash
    for (W, D) in ([(2, 1)] if quick else [(2, 1), (1, 2), (2, 2)]):
        envs = H.observed_envs(W, D, 3 if quick else 8, rng)
        if query_mc:
            edges = H.export_edges(rep, envs, prop + "eq%d%d" % (W, D), 5, 3, 1, False, True, True)
        else:
            edges = H.export_edges(rep, envs, prop + "e%d%d" % (W, D), 5, 3, 2, False, False, quick)
        H.replay_edges(rep, edges, envs, 5, True)
        edges = H.export_edges(rep, envs[:2], prop + "eu%d%d" % (W, D), 1000, 2, 1 if query_mc else 2, True, query_mc, True)
        H.replay_edges(rep, edges, envs[:2], 1000, False)
    # (3) code -> spec
    n = 90 if quick else 600
    traces = [H.random_history(rng, focus=rng.choice(focus)) for _ in range(n)]
    for i in range(0, n, 150):
        H.validate(rep, traces[i:i + 150], invs, props, tag=prop + "tr%d" % i)
    rep.sample({"trace_shape": {k: traces[0][k] for k in ("W", "D", "L", "NS", "phi")},
                "trace_keys": traces[0]["keys"][:3],
                "trace_events": [{k: v for k, v in e.items() if k != "post"} for e in traces[0]["events"][:4]]})
    rep.cov["exhaustive"] = True
    rep.cov["rule"] = ("TLC: all histories of the named small instances (identities e,<0>,<1>,<1,0>, L=2); edge replay: "
                       "every exported transition on placements observed from the real hash; traces: random "
                       "histories on real sketches incl. NUL-aliased keys")
    rep.cov["distinct_nontrivial"] = rep.cov["states"]
    rep.assumptions += ["cell ownership observed on an empty probe sketch", "TLC 1.8, CommunityModules Json/IOUtils"]
    return rep.finish()


def check_C03(tier):
    import hh as H
    return _hh_common("C03", tier, H.INV_C03, [], [None, None, "ceiling", "batch"], False)


def check_C04(tier):
    import hh as H
    return _hh_common("C04", tier, H.INV_C04, [], [None, None, "batch"], False)


def check_C13(tier):
    import hh as H
    return _hh_common("C13", tier, H.INV_C13, H.PROP_C13, ["query", "query", None], True)


# ------------------------------------------------------------------------- C11

def check_C11(tier):
    import hashes_drv as HD
    rep = Report("C11", tier)
    rng = _rng("C11")
    quick = tier == "quick"
    other = HD.other_process_calls(SEED + 1, 100 if quick else 257)
    HD.anchor(rep)
    calls = HD.gen_calls(rng, 4 if quick else 16)
    # keys constructed to have prescribed hashes double as a check (C02's realisation)
    ok = HD.validate_calls(rep, calls, "c11a")
    out = other.communicate()[0]
    line = [x for x in out.splitlines() if x.startswith("CALLS")]
    if not line:
        raise common.MachineryError("second interpreter produced no calls")
    calls2 = json.loads(line[0][5:])
    if ok:
        HD.validate_calls(rep, calls2, "c11b")
    rep.sample(calls[5])
    rep.sample(calls[-1])
    rep.cov["rule"] = ("every length 0..257 x {fasthash64, fasthash32, murmur3} rotated, biased bytes, boundary seeds, "
                       "keys built by slicing at offsets 0..7, second interpreter with another PYTHONHASHSEED; each call is "
                       "distinct by construction")
    rep.cov["distinct_nontrivial"] = len({json.dumps(c, sort_keys=True) for c in calls + calls2})
    rep.assumptions += ["SMHasher's published verification values identify the reference algorithms",
                        "TLC Bitwise Java overrides"]
    return rep.finish()


# ------------------------------------------------------------------------- C02

def check_C02(tier):
    import hll as H
    import hashes_drv as HD
    rep = Report("C02", tier)
    rng = _rng("C02")
    quick = tier == "quick"
    HD.anchor(rep)          # Hashes.tla (placement oracle, incl. nlz64) is the published FastHash
    H.model_check(rep, H.INVS, Slots=2 if quick else 3, MaxKeys=4, tag="c02mc")
    edges = H.export_edges(rep, 2, 2 if quick else 3, "c02e",
                           place_idx=sorted(rng.sample(range(1, 649), 24 if quick else 80)))
    combos = [(7, 0), (12, 2**64 - 1)] if quick else [(p, s) for p in range(7, 17) for s in (0, 1, 2**32, 2**63, 2**64 - 1)]
    H.replay_edges(rep, edges, combos, rng, max_places=None if quick else 12)
    # the merge tree the library itself builds: helpers.parallel_merging on 2..5 shared-memory sketches
    import padd as PA
    pb = PA.Batch()
    import fakemp
    try:
        for N in ([2, 3, 5] if quick else [1, 2, 3, 4, 5]):
            PA.direct_merging(rep, rng, N, pb)
    except fakemp.StandInUnsupported as exc:
        rep.assumptions += ["the in-process stand-in for multiprocessing does not apply to this tree (%s): the "
                            "parallel_merging stage was skipped" % str(exc)[:200]]
    pb.validate(rep, "c02pm")
    n = 80 if quick else 800
    traces = [H.random_history(rng) if i % 3 else H.partition_history(rng) for i in range(n)]
    for i in range(0, n, 200):
        H.validate(rep, traces[i:i + 200], H.INVS, tag="c02tr%d" % i)
    rep.sample({"p": traces[1]["p"], "seed": traces[1]["seed"],
                "events": [{k: v for k, v in e.items() if k != "post"} for e in traces[1]["events"][:3]]})
    rep.cov["exhaustive"] = True
    rep.cov["rule"] = ("TLC: all orders/duplications/batchings/partitions/merge trees of 4 keys under every placement; "
                       "edge replay with keys constructed to hit chosen registers and ranks 1, 2, 64-p+1; traces with "
                       "placement recomputed by Hashes.tla")
    rep.cov["distinct_nontrivial"] = rep.cov["states"]
    rep.assumptions += ["Hashes.tla is the reference FastHash (anchored to SMHasher's verification value in the same run)"]
    return rep.finish()


# ----------------------------------------------------------- C05 / C06 / C09 / C18

def _sample_linear(rep, traces):
    rep.sample({"linear_trace_events": [{k: v for k, v in e.items() if k != "post"}
                                        for e in traces[0]["events"][:3]]})


def _sample_log(rep, traces):
    t = traces[0]
    rep.sample({"log_trace": {k: t[k] for k in ("kind", "max_count", "NR", "W", "D")},
                "events": [{k: v for k, v in e.items() if k not in ("post",)} for e in t["events"][:2]]})


def check_C05(tier):
    import cm_linear as L
    import cm_log as G
    rep = Report("C05", tier)
    rng = _rng("C05")
    quick = tier == "quick"
    L.model_check(rep, [], ["AddEffectProp"], W=2, D=2, Cap=3, MaxTruth=3 if quick else 4, Slots=2, tag="c05lin")
    G.model_check(rep, [], G.PROP_C05, W=2, D=1 if quick else 2, UMax=4, NR=1, Slots=1 if quick else 2,
                  MaxTruth=4, B=2, tag="c05log")
    idx = sorted(rng.sample(range(1, 17), 3) + [1, 16]) if quick else []
    edges = L.export_edges(rep, 2, 2, 3, 3, 1 if quick else 2, False, "c05e", small=quick, env_idx=idx)
    L.replay_edges(rep, edges, 3, True, rng, variants=1 if quick else 2)
    n = 100 if quick else 500
    lt = [L.random_history(rng, focus=rng.choice([None, "ceiling"])) for _ in range(n)]
    for i in range(0, n, 150):
        L.validate(rep, lt[i:i + 150], ["CellsBelowCap"], ["AddEffectProp"], tag="c05lt%d" % i)
    gt = [G.random_history(rng, focus=rng.choice([None, None, "ceiling", "refill"])) for _ in range(n)]
    for i in range(0, n, 150):
        G.validate(rep, gt[i:i + 150], [], G.PROP_C05, tag="c05gt%d" % i)
    _sample_linear(rep, lt)
    _sample_log(rep, gt)
    rep.cov["exhaustive"] = True
    rep.cov["rule"] = ("TLC: AddEffect on every add transition of the small linear and log instances; edge replay of every "
                       "add edge; validated traces of the three real classes (log draws placed around the decision boundary)")
    rep.cov["distinct_nontrivial"] = rep.cov["states"]
    rep.assumptions += ["increment probability oracle: CPython float base**-k with 1e-12 margins"]
    return rep.finish()


def _log_grid(quick, rep=None, strict=False):
    import cm_log as G
    if quick:
        return G.configs(rep or Report("tmp", "quick"), [("log8", 2**32 - 1, 15), ("log8", 1000, 3), ("log8", 2**40, 100)], strict)
    return _log_grid_full(rep, strict)


def _merge_grid(quick, rep=None, strict=False):
    """Configurations for the merge-cell sweep: small max_count with small, medium and large reserved ranges
    (the step between the top counters may be smaller or larger than num_reserved), defaults, huge max_count."""
    import cm_log as G
    cfgs = [("log8", 2**32 - 1, 15), ("log8", 1000, 3), ("log8", 1000, 15), ("log8", 300, 40), ("log8", 2000, 100),
            ("log8", 2**40, 100), ("log8", 70000, 250), ("log8", 2**63, 0)]
    return G.configs(rep or Report("tmp", "quick"), cfgs, strict)


def _merge_pairs(cf, rng, quick):
    if not quick:
        return [(a, b) for a in range(256) for b in range(256)]
    bs = sorted(set(list(range(0, min(cf.nr + 4, 256))) + list(range(248, 256)) + rng.sample(range(256), 24)))[:64]
    return [(a, b) for a in range(256) for b in bs] + [(b, a) for a in range(248, 256) for b in range(256)]


def _log_grid_full(rep=None, strict=False):
    import cm_log as G
    return G.configs(rep or Report("tmp", "quick"),
                     [("log8", 2**32 - 1, 15), ("log8", 1000, 3), ("log8", 300, 0), ("log8", 2**40, 100),
                      ("log8", 5000, 30), ("log8", 2**63, 0), ("log8", 10**6, 200), ("log8", 70000, 250)], strict)


def check_C06(tier):
    import cm_log as G
    rep = Report("C06", tier)
    rng = _rng("C06")
    quick = tier == "quick"
    # (a)+(d) design: lower bound, exactness in the reserved range, fresh draws
    G.model_check(rep, G.INV_C06, G.PROP_C06, W=2, D=1, UMax=4, NR=1, Slots=2, MaxTruth=4, B=2, tag="c06mc")
    if not quick:
        G.model_check(rep, G.INV_C06, G.PROP_C06, W=2, D=2, UMax=4, NR=2, Slots=1, MaxTruth=5, B=3, tag="c06mc2")
    # (c) unbiasedness: exact Markov chain of the update rule
    cfg = common.write_cfg("logchain.cfg", open(common.SPEC + "/LogChain.cfg").read(), [], [])
    r = common.run_tlc("LogChain", cfg, workers=1, tag="chain")
    rep.add_tlc("LogChain (exact distribution, E[decoded] = N until the ceiling)", r)
    if not r.ok:
        rep.violation("LogChain: %s violated" % r.violated, {"kind": "model", "signature": {"model": r.violated}})
    # (b) the increment law: one implementation test per transition of the counter chain
    cfgs = _log_grid(quick, rep)
    batches = []
    for cf in cfgs:
        calls = G.step_calls(cf, range(256), rng)
        for i in range(0, len(calls), 128):
            batches.append(G.calls_batch(cf, calls[i:i + 128]))
    cf16 = G.LogConfig("log16", 2**32 - 1, 1023)       # the default configuration
    counters = (sorted(set(list(range(0, 1100)) + list(range(65400, 65536)) + rng.sample(range(65536), 3000)))
                if quick else range(65536))
    calls = G.step_calls(cf16, counters, rng)
    for i in range(0, len(calls), 4096):
        batches.append(G.calls_batch(cf16, calls[i:i + 4096]))
    if not quick:
        for cf16b in G.configs(rep, [("log16", 10**6, 100)]):
            calls = G.step_calls(cf16b, range(65536), rng)
            for i in range(0, len(calls), 4096):
                batches.append(G.calls_batch(cf16b, calls[i:i + 4096]))
            cfgs.append(cf16b)
    G.validate_calls(rep, batches, "c06steps")
    rep.sample({"step_call": batches[0]["calls"][40], "config": {k: batches[0][k] for k in ("kind", "max_count", "NR")}})
    # decode law: observed table = closed formula, rises by base^(c-NR)
    G.check_decode_table(rep, cfgs + [cf16], lambda cf: range(0, cf.umax + 1, 1 if cf.umax == 255 else 97))
    # histories with placed draws, refills forced
    n = 60 if quick else 600
    # every entry point that can consume draws (add, update, add_ngram, update_ngram)
    gt = [G.random_history(rng, focus=rng.choice([None, "refill", "refill", "ceiling", "batch", "batch"])) for _ in range(n)]
    for i in range(0, n, 150):
        G.validate(rep, gt[i:i + 150], G.INV_C06, G.PROP_C06, tag="c06gt%d" % i)
    _sample_log(rep, gt)
    rep.cov["exhaustive"] = True
    rep.cov["rule"] = ("every counter value x configuration x draws {0, P(1-1e-12), P(1+1e-12), 1-2^-53} is one validated "
                       "transition; TLC exhaustive on the dyadic instance; exact Markov chain; validated histories")
    rep.cov["distinct_nontrivial"] = rep.cov["states"] + rep.cov["evaluations"]
    rep.assumptions += ["uniformity of the numpy/numba generators is trusted; freshness (replenished, never recycled, in [0,1)) is checked",
                        "increment probability oracle: CPython float base**-k with 1e-12 margins"]
    return rep.finish()


def check_C09(tier):
    import cm_linear as L
    import cm_log as G
    rep = Report("C09", tier)
    rng = _rng("C09")
    quick = tier == "quick"
    L.model_check(rep, ["MergeAlgebra"], ["MergeEffectProp"], W=2, D=2, Cap=3, MaxTruth=3 if quick else 4, Slots=2, tag="c09lin")
    G.model_check(rep, [], G.PROP_C09, W=2, D=1, UMax=4, NR=1, Slots=2, MaxTruth=4, B=2, tag="c09log")
    # all 256 x 256 counter pairs (tables set directly) for every log8 configuration of the grid
    batches = []
    for cf in _merge_grid(quick, rep):
        pairs = _merge_pairs(cf, rng, quick)
        calls = G.merge_calls(cf, pairs)
        for i in range(0, len(calls), 2048):
            batches.append(G.calls_batch(cf, calls[i:i + 2048]))
    # log16: every counter against the empty sketch and against itself, sampled pairs
    for cf in G.configs(rep, [("log16", 2**32 - 1, 1023)] + ([] if quick else [("log16", 10**6, 100)])):
        step = 16 if quick else 1
        pairs = [(c, 0) for c in range(0, 65536, step)] + [(0, c) for c in range(0, 65536, step)] + \
                [(c, c) for c in range(0, 65536, step * 4)]
        pairs += [(rng.randrange(65536), rng.randrange(65536)) for _ in range(20000 if quick else 200000)]
        pairs += [(rng.randrange(1100), rng.randrange(1100)) for _ in range(5000)]
        calls = G.merge_calls(cf, pairs)
        for i in range(0, len(calls), 4096):
            batches.append(G.calls_batch(cf, calls[i:i + 4096]))
    G.validate_calls(rep, batches, "c09pairs")
    rep.sample({"merge_call": batches[0]["calls"][300], "config": {k: batches[0][k] for k in ("kind", "max_count", "NR")}})
    n = 50 if quick else 400
    lt = [L.random_history(rng, focus=rng.choice(["merge", "ceiling"])) for _ in range(n)]
    for i in range(0, n, 150):
        L.validate(rep, lt[i:i + 150], ["MergeAlgebra", "CellsBelowCap"], ["MergeEffectProp"], tag="c09lt%d" % i)
    gt = [G.random_history(rng) for _ in range(n)]
    for i in range(0, n, 150):
        G.validate(rep, gt[i:i + 150], [], G.PROP_C09, tag="c09gt%d" % i)
    _sample_linear(rep, lt)
    rep.cov["exhaustive"] = True
    rep.cov["rule"] = ("log8: all 65536 counter pairs per configuration; log16: every counter vs empty/itself + sampled pairs; "
                       "each pair is one validated merge cell; linear: TLC exhaustive + validated histories with saturating merges")
    rep.cov["distinct_nontrivial"] = rep.cov["evaluations"]
    rep.assumptions += ["decoded values observed from the implementation's own decode, cross-checked against the closed formula (C06)",
                        "either neighbour accepted within 2^-30 relative of the midpoint"]
    return rep.finish()


def check_C18(tier):
    import cm_linear as L
    import cm_log as G
    import hh as H
    rep = Report("C18", tier)
    rng = _rng("C18")
    quick = tier == "quick"
    # the ceiling of every accepted log configuration decodes to max_count, else ValueError
    mcs = [300, 500, 1000, 5000, 70000, 10**6, 2**32 - 1, 2**40, 2**53, 2**63]
    batches = []
    for kind, um in (("log8", 255), ("log16", 65535)):
        nrs = sorted(set([0, 1, 2, 3, 15, 30, 100, 200, 250, 253, 254] if um == 255 else
                         [0, 1, 15, 1023, 5000, 30000, 60000, 65000, 65533, 65534]))
        if not quick:
            nrs = sorted(set(nrs + [rng.randrange(um) for _ in range(40)]))
            mcs2 = mcs + [rng.randrange(300, 2**63) for _ in range(20)]
        else:
            mcs2 = mcs
        calls, meta = G.ctor_calls(kind, [(m, n) for m in mcs2 for n in nrs])
        batches.append(G.ctor_batch(kind, calls))
        rep.sample({"ctor_grid": kind, "first": [list(map(str, x)) for x in meta[:3]]})
    # merges that land at or beyond the ceiling: every counter paired with the top 16 counters, both orders
    for cf in _merge_grid(quick, rep, strict=True):
        pairs = [(a, b) for a in range(240, 256) for b in range(256)] + [(b, a) for a in range(240, 256) for b in range(256)]
        calls = G.merge_calls(cf, pairs)
        for i in range(0, len(calls), 2048):
            batches.append(G.calls_batch(cf, calls[i:i + 2048]))
    G.validate_calls(rep, batches, "c18ctor")
    # specification growth: every constructor validation path, factory and attach dispatch
    import ctors
    ctors.validate(rep, rng, quick)
    # design level: small ceilings reached within 2-3 operations, adds/merges repeated after saturation
    L.model_check(rep, ["CellsBelowCap"], ["MonotoneProp"], W=2, D=2, Cap=3, MaxTruth=4 if quick else 6, Slots=2, tag="c18lin")
    G.model_check(rep, [], G.PROP_C18, W=2, D=1, UMax=3, NR=1, Slots=2 if not quick else 1, MaxTruth=5, B=2, tag="c18log")
    H.model_check(rep, ["CountsBelowCap"], H.PROP_C18, tag="c18hh", W=2, D=1, Cap=3, MaxTruth=4 if quick else 5, Slots=2)
    # spec -> code at the real ceiling (scaled replay)
    idx = sorted(rng.sample(range(1, 17), 2) + [1, 16]) if quick else []
    edges = L.export_edges(rep, 2, 2, 3, 4, 1 if quick else 2, False, "c18e", small=True, env_idx=idx)
    L.replay_edges(rep, edges, 3, True, rng, variants=1)
    envs = H.observed_envs(2, 1, 2 if quick else 6, rng)
    edges = H.export_edges(rep, envs, "c18he", 3, 3 if quick else 4, 2, False, False, True)
    H.replay_edges(rep, edges, envs, 3, True)
    # code -> spec: values landing within +-3 of the ceiling, repeated after saturation
    n = 50 if quick else 500
    lt = [L.random_history(rng, focus="ceiling") for _ in range(n)]
    for i in range(0, n, 150):
        L.validate(rep, lt[i:i + 150], ["CellsBelowCap", "Lower"], ["MonotoneProp"], tag="c18lt%d" % i)
    gt = [G.random_history(rng, focus="ceiling") for _ in range(n)]
    for i in range(0, n, 150):
        G.validate(rep, gt[i:i + 150], [], G.PROP_C18, tag="c18gt%d" % i)
    ht = [H.random_history(rng, focus="ceiling") for _ in range(n)]
    for i in range(0, n, 150):
        H.validate(rep, ht[i:i + 150], ["CountsBelowCap", "NoOver"], H.PROP_C18, tag="c18ht%d" % i)
    _sample_linear(rep, lt)
    rep.cov["exhaustive"] = True
    rep.cov["rule"] = ("TLC exhaustive with ceilings 3 (reached within 2-3 operations); scaled edge replay at 2^32-1; validated "
                       "histories with values within +-3 of the ceiling; constructor grid max_count 300..2^63 x num_reserved 0..UMax-1")
    rep.cov["distinct_nontrivial"] = rep.cov["states"]
    rep.assumptions += ["grid points with max_count - nr within 1% of UMax - nr (ill-conditioned equation) are excluded"]
    return rep.finish()


# ------------------------------------------------------------------- C12 / C15

def check_C12(tier):
    import cm_linear as L
    import cm_log as G
    import hh as H
    import hll as Y
    rep = Report("C12", tier)
    rng = _rng("C12")
    quick = tier == "quick"
    # design: add(k, v) = v unit adds; batch = loop (state-function identities on every reachable state)
    L.model_check(rep, ["ValueIsUnitAdds", "BatchIsLoop"], [], W=2, D=2, Cap=3, MaxTruth=3 if quick else 4, Slots=1, tag="c12lin")
    H.model_check(rep, ["ValueIsUnitAddsHH"], [], tag="c12hh", W=2, D=1, Cap=5, MaxTruth=3 if quick else 4, Slots=1)
    # spec -> code: every batch edge replayed as ONE real call (unit operations: unscaled model)
    idx = sorted(rng.sample(range(1, 17), 3)) if quick else []
    edges = L.export_edges(rep, 2, 2, 1000, 2 if quick else 3, 1, True, "c12e", small=True, env_idx=idx)
    L.replay_edges(rep, edges, 1000, False, rng, variants=1 if quick else 2)
    envs = H.observed_envs(2, 1, 2 if quick else 6, rng)
    edges = H.export_edges(rep, envs, "c12he", 1000, 2 if quick else 3, 1, True, False, True)
    H.replay_edges(rep, edges, envs, 1000, False)
    # code -> spec: batch-heavy histories of all five classes; one real call per batch event,
    # the specification computes the loop of single adds
    n = 70 if quick else 400
    lt = [L.random_history(rng, focus="batch") for _ in range(n)]
    gt = [G.random_history(rng, focus="batch") for _ in range(n - n // 4)]
    # ... and on keys at the ceiling of small-max_count sketches (a multiplicity that saturates part-way
    # must leave the same n_added as the single adds)
    gt += [G.random_history(rng, focus="batchceil") for _ in range(n // 4)]
    ht = [H.random_history(rng, focus="batch") for _ in range(n)]
    yt = [Y.random_history(rng) for _ in range(n)]
    for i in range(0, n, 150):
        L.validate(rep, lt[i:i + 150], [], [], tag="c12lt%d" % i)
        G.validate(rep, gt[i:i + 150], [], [], tag="c12gt%d" % i)
        H.validate(rep, ht[i:i + 150], [], [], tag="c12ht%d" % i)
        Y.validate(rep, yt[i:i + 150], [], tag="c12yt%d" % i)
    for must in ("update_list", "update_dict", "add_ngram", "update_ngram"):
        if rep.cov["actions"].get(must, 0) < 4:
            raise common.MachineryError("vacuous: batch entry point %s hardly exercised" % must)
    _sample_linear(rep, lt)
    rep.sample({"hh_batch_event": next(({k: v for k, v in e.items() if k != "post"} for t in ht for e in t["events"]
                                        if e["ev"] in ("update_dict", "add_ngram")), None)})
    rep.cov["exhaustive"] = True
    rep.cov["rule"] = ("TLC: identities on every reachable state of the small instances; every batch edge replayed as one real "
                       "call; batch-heavy histories of CountMinLinear/Log8/Log16/HeavyHitters/HyperLogLog validated event by event")
    rep.cov["distinct_nontrivial"] = rep.cov["states"]
    return rep.finish()


def check_C15(tier):
    import compat as C
    rep = Report("C15", tier)
    rng = _rng("C15")
    C.run_grid(rep, rng, tier == "quick")
    rep.cov["exhaustive"] = True
    rep.cov["rule"] = ("every ordered pair of the per-family configuration grid (each differing from a base in one parameter, "
                       "all counter types at equal shape), both operands non-empty; outcome and content digests before/after")
    rep.cov["distinct_nontrivial"] = rep.cov["evaluations"]
    rep.cov["states"] = max(rep.cov["states"], 1)
    rep.cov["transitions"] = max(rep.cov["transitions"], 1)
    return rep.finish()


# ------------------------------------------------------------------- C10 / C20

def check_C20(tier):
    import persist as P
    rep = Report("C20", tier)
    rng = _rng("C20")
    quick = tier == "quick"
    P.model_check(rep)
    files = []
    for kind in ("linear", "log16", "log8", "hll", "hh"):
        for j in range(2 if quick else 4):
            files.append(P.prefix_events(rng, kind, stride=1 if j % 2 == 0 else (7 if quick else 1), overwrite=(j % 2 == 1)))
        files.append(P.prefix_events(rng, kind, large=True, stride=211 if quick else 3))     # (thorough: every third offset of a 64 KiB+ file)
    P.validate(rep, files, [], "c20")
    per = {}
    for f in files:
        acc = 0
        bounds = []
        for k, ln in f["regions"]:
            bounds.append((acc, acc + ln, k))
            acc += ln
        for off, _ld, _o in f["events"]:
            for lo, hi, k in bounds:
                if lo <= off < hi:
                    per[k] = per.get(k, 0) + 1
    rep.cov["prefix_loads_per_region"] = per
    rep.sample({"cls": files[0]["cls"], "regions": files[0]["regions"][:6], "total": files[0]["total"],
                "events": files[0]["events"][:3] + files[0]["events"][-2:]})
    rep.cov["exhaustive"] = True
    rep.cov["rule"] = ("every byte offset 0..len of each saved file (5 classes), through the class loader and the module-level "
                       "load(); the complete file must load to the saved sketch")
    rep.cov["distinct_nontrivial"] = rep.cov["evaluations"]
    rep.assumptions += ["np.savez writes stored zip members with the EOCD record last (checked on every file by LayoutOK)"]
    return rep.finish()


def check_C10(tier):
    import persist as P
    import cm_linear as L
    import cm_log as G
    import hh as H
    import hll as Y
    rep = Report("C10", tier)
    rng = _rng("C10")
    quick = tier == "quick"
    impl.STRICT_PERSIST = True          # a save/load that raises inside a history is a C10 violation
    # loader / class matrix and parameter / state / observer equality, merge both ways
    trips = P.roundtrips(rng, 45 if quick else 200)
    P.validate(rep, [], trips, "c10")
    rep.sample({k: trips[0][k] for k in ("cls", "loader", "shm", "outcome", "params_before")})
    # "evolves identically under any further operations": save/load chains inside validated
    # histories of every class -- the loaded object replaces a slot and both continue
    n = 50 if quick else 300

    def heavy(mod, focus=None):
        out = []
        for _ in range(n):
            t = mod.random_history(rng) if focus is None else mod.random_history(rng, focus=focus)
            out.append(t)
        return out
    lt, gt, ht, yt = heavy(L), heavy(G), heavy(H), heavy(Y)
    for i in range(0, n, 150):
        L.validate(rep, lt[i:i + 150], ["NAdded"], [], tag="c10lt%d" % i)
        G.validate(rep, gt[i:i + 150], [], [], tag="c10gt%d" % i)
        H.validate(rep, ht[i:i + 150], ["CacheCoherent"], H.PROP_C13, tag="c10ht%d" % i)
        Y.validate(rep, yt[i:i + 150], ["UnionSemantics"], tag="c10yt%d" % i)
    if rep.cov["actions"].get("saveload", 0) < 8:
        raise common.MachineryError("vacuous: too few save/load events in the histories")
    rep.cov["rule"] = ("loader x class matrix with random shapes/parameters/histories and shared_memory on/off; save->load->continue "
                       "chains inside validated histories of all five classes")
    rep.cov["distinct_nontrivial"] = len({json.dumps(t, sort_keys=True) for t in trips}) + rep.cov["traces_validated_against_impl"]
    rep.cov["states"] = max(rep.cov["states"], 1)
    rep.cov["transitions"] = max(rep.cov["transitions"], 1)
    return rep.finish()


# ------------------------------------------------------------------- C08 / C19

def _padd_replays(rep, rng, scenarios, per_scenario, which_choices, tag):
    import padd as PA
    batch = PA.Batch()
    for (N, K, fs, die) in scenarios:
        outs = PA.model_check(rep, N, K, fs, die, liveness=(N * K <= 12), outcomes=True, tag="%s%d%d%d" % (tag, N, K, fs))
        if not outs:
            continue
        pick = outs if len(outs) <= per_scenario else rng.sample(outs, per_scenario)
        for o in pick:
            which = rng.choice(which_choices)
            if not PA.replay_outcome(rep, N, K, fs, die, o, rng, which, batch):
                return batch, False
        rep.sample({"scenario": {"N": N, "K": K, "fault_set": fs, "die": die}, "terminal_outcomes": len(outs),
                    "replayed": len(pick), "example": pick[0]}, limit=8)
    return batch, True


def check_C08(tier):
    import padd as PA
    rep = Report("C08", tier)
    rng = _rng("C08")
    quick = tier == "quick"
    all3 = {"cms", "hh", "hll"}
    combos = [all3, all3, {"cms"}, {"hll"}, {"hh"}, {"cms", "hll"}, {"hh", "hll"}, {"cms", "hh"}]
    if quick:
        scen = [(1, 4, 0, None), (2, 4, 0, None), (3, 4, 0, None), (4, 5, 0, None), (2, 0, 0, None), (3, 1, 0, None)]
        per = 6
    else:
        scen = [(1, 5, 0, None), (2, 4, 0, None), (2, 6, 0, None), (3, 5, 0, None), (4, 6, 0, None), (3, 4, 1, None),
                (2, 0, 0, None), (4, 1, 0, None), (3, 2, 0, None)]
        per = 60
    # real spawned run started first? (no: it must not overlap the in-process runs that patch helpers)
    # the refinement the replays rely on: abstract bags <-> concrete sketches, every schedule and placement
    PA.composition_check(rep, 2 if quick else 3)
    import fakemp
    standin = True
    wide = PA.Batch()                  # traces with many slots are validated separately
    try:
        batch, ok = _padd_replays(rep, rng, scen, per, combos, "c08")
        # merge-tree shape for every worker count 1..9 (odd counts carry a sketch over)
        if ok:
            for N in ([5, 7, 9] if quick else [5, 6, 7, 8, 9]):
                o = {"assign": [(i % N) + 1 for i in range(N)] + list(range(1, N + 1)), "st": "returned",
                     "nrec": sum(range(1, N + 1)), "bag": list(range(1, N + 1)), "part": []}
                if not PA.replay_outcome(rep, N, N, 0, None, o, rng, {"cms", "hll"}, wide):
                    ok = False
                    break
    except fakemp.StandInUnsupported as exc:
        # e.g. the monitor loop was rewritten around an interface the stand-in does not provide: no verdict
        # from the in-process replays; real spawned processes only (more of them)
        standin, ok, batch, wide = False, True, PA.Batch(), PA.Batch()
        print("NOTE: in-process stand-in not applicable (%s); real spawned runs only" % str(exc)[:160], flush=True)
        rep.cov["standin_applied"] = False
        rep.assumptions += ["the in-process stand-in for multiprocessing does not apply to this tree (%s): schedule "
                            "replays skipped, real spawned runs only" % str(exc)[:200]]
    # code -> spec: real spawned processes; items given as a generator (documented usage)
    if ok:
        runs = [PA.real_run(2, 5, 0, None, rng, {"cms", "hll"}, generator=True)]
        if not standin:
            runs += [PA.real_run(3, 6, 0, None, rng, all3, generator=False), PA.real_run(5, 7, 0, None, rng, {"cms", "hh"}, generator=False),
                     PA.real_run(1, 3, 0, None, rng, {"hll"}, generator=True)]
        if not quick:
            runs += [PA.real_run(n, 6, fs, None, rng, w, generator=g)
                     for n, fs, w, g in ((1, 0, {"hll"}, False), (3, 1, all3, True), (5, 0, {"cms", "hh"}, False))]
        for i, run in enumerate(runs):
            if not PA.validate_real(rep, run, wide if run["N"] > 4 else batch, "c08real%d" % i):
                ok = False
                break
            rep.sample({"real_run": {k: run[k] for k in ("N", "K", "outcome", "generator", "wall")},
                        "per_pid": {str(k): v for k, v in run["per_pid"].items()}}, limit=10)
    if ok:
        batch.validate(rep, "c08sk")
        wide.validate(rep, "c08wide")
    rep.cov["exhaustive"] = True
    rep.cov["rule"] = ("TLC: every schedule of the named scenarios (safety + termination under weak fairness); each distinct "
                       "dequeue assignment (sampled per scenario) replayed against the real worker/merge code in-process; returned "
                       "sketches validated by the sketch trace specs against the whole stream; real spawned runs validated against "
                       "the specification under their recorded assignment")
    rep.cov["distinct_nontrivial"] = rep.cov["states"]
    rep.assumptions += ["in-process runs replace multiprocessing by a deterministic thread scheduler (fakemp); its fidelity is "
                        "checked by the real spawned runs", "queue is FIFO: the dequeue order of items is their put order"]
    return rep.finish()


def check_C19(tier):
    import padd as PA
    rep = Report("C19", tier)
    rng = _rng("C19")
    quick = tier == "quick"
    all3 = {"cms", "hh", "hll"}
    combos = [all3, {"cms", "hll"}, {"hh"}, {"cms"}]
    if quick:
        scen = [(2, 4, 1, None), (1, 3, 3, None), (3, 4, 2, None), (2, 4, 0, (1, 1)), (2, 4, 1, (2, 1)), (3, 4, 0, (1, 2)),
                (2, 8, 0, (1, 1)), (2, 9, 0, (2, 2)),       # more items than the queue holds: the filler is still busy
                (1, 3, 0, (1, 2)), (1, 5, 0, (1, 1))]       # a single worker: nobody else is running when it dies
        per = 4
    else:
        scen = [(n, k, fs, None) for n in (1, 2, 3) for k in (3, 5) for fs in (1, 2, 3)] + \
               [(n, 4, fs, d) for n in (2, 3) for fs in (0, 1) for d in ((1, 1), (1, 2), (2, 1))] + \
               [(2, 8, 0, (1, 1)), (2, 9, 1, (2, 2)), (3, 11, 0, (2, 1)), (1, 3, 0, (1, 2)), (1, 5, 1, (1, 1)), (1, 4, 0, (1, 2))]
        per = 12
    import fakemp
    standin = True
    try:
        batch, ok = _padd_replays(rep, rng, scen, per, combos, "c19")
        # specification growth: a merge process killed by the system (exit code < 0) => RuntimeError, no result
        if ok:
            for (N, km) in ([(2, 1), (3, 2)] if quick else [(2, 1), (3, 1), (3, 2), (4, 3), (5, 4)]):
                outs = PA.model_check(rep, N, 3, 0, None, liveness=True, outcomes=True, tag="c19mk%d%d" % (N, km), merger_dies=km)
                for o in (outs[:2] if quick else outs[:6]):
                    # with two sketch types the k-th merger belongs to the first type merged
                    if not PA.replay_outcome(rep, N, 3, 0, None, o, rng, {"cms", "hll"}, batch, kill_merger=km):
                        ok = False
                        break
                if not ok:
                    break
    except fakemp.StandInUnsupported as exc:
        standin, ok, batch = False, True, PA.Batch()
        print("NOTE: in-process stand-in not applicable (%s); real spawned runs only" % str(exc)[:160], flush=True)
        rep.cov["standin_applied"] = False
        rep.assumptions += ["the in-process stand-in for multiprocessing does not apply to this tree (%s): fault "
                            "replays skipped, real spawned runs only" % str(exc)[:200]]
    # specification growth: the log process and its queue (refinement of ParallelAdd, no message lost before a
    # return, killed on a worker's death, left running exactly when a merge process dies)
    for args in ([(2, 2, 1, None, 0), (2, 3, 0, (1, 1), 0), (2, 2, 0, None, 1)] if quick else
                 [(2, 2, 1, None, 0), (2, 3, 0, (1, 1), 0), (2, 2, 0, None, 1), (3, 3, 2, None, 0), (3, 4, 1, (2, 1), 0), (3, 3, 0, None, 2)]):
        louts = PA.logchannel_check(rep, *args[:4], merger_dies=args[4], tag="c19lc%d%d%d" % (args[0], args[1], args[4]))
        rep.sample({"logchannel": {"N": args[0], "K": args[1], "faults": args[2], "die": args[3], "merger_dies": args[4]},
                    "terminal (outcome, log process)": louts}, limit=12)
    if ok:
        runs = [PA.real_run(2, 5, 0, 3, rng, {"hll"})]                    # a worker calls os._exit(1) on item 3
        if not standin:
            runs += [PA.real_run(2, 5, 1, None, rng, {"cms", "hll"}), PA.real_run(1, 3, 0, 2, rng, {"cms"}),
                     PA.real_run(3, 6, 2, 1, rng, {"cms", "hh"})]
        if not quick:
            runs += [PA.real_run(3, 6, 0, 1, rng, {"cms", "hll"}), PA.real_run(2, 5, 1, None, rng, {"cms", "hll"})]
        for i, run in enumerate(runs):
            if run["wall"] > 600:
                rep.violation("parallel_add needed %.0f s to terminate" % run["wall"], {"kind": "padd_real", "signature": {"padd_real": "slow"}})
                ok = False
                break
            if not PA.validate_real(rep, run, batch, "c19real%d" % i):
                ok = False
                break
            rep.sample({"real_run": {k: run[k] for k in ("N", "K", "die_item", "outcome", "exc", "wall")}}, limit=10)
    if ok:
        batch.validate(rep, "c19sk")
    rep.cov["exhaustive"] = True
    rep.cov["rule"] = ("TLC: all schedules of scenarios with raising callbacks (before/after touching the sketches) and one worker "
                       "dying on its k-th item, safety + termination; terminal outcomes replayed against the real code; real spawned "
                       "run with os._exit in a worker")
    rep.cov["distinct_nontrivial"] = rep.cov["states"]
    rep.assumptions += ["in-process death = an uncaught BaseException in the worker (exit code 1)"]
    return rep.finish()


# ------------------------------------------------------------------------- C16

def check_C16(tier):
    import shm as S
    rep = Report("C16", tier)
    rng = _rng("C16")
    quick = tier == "quick"
    edges = S.model_and_edges(rep, 2 if quick else 3)
    ps = S.paths(edges, 7 if quick else 9, rng, 120 if quick else 600)
    n = 0
    kinds = ["linear", "log16", "log8", "hll", "hh"]
    for i, p in enumerate(ps):
        kind = kinds[i % 5]
        shape = S.SHAPES[kind][(i // 5) % len(S.SHAPES[kind])]
        if not S.replay(rep, p, kind, shape, rng, from_file=(i % 3 == 2)):
            break
        n += 1
    rep.cov["traces_validated_against_impl"] += n
    rep.cov["evaluations"] += n
    rep.sample({"behaviour": ps[min(7, len(ps) - 1)], "class": "round-robin over the five classes and odd shapes"})
    rep.cov["exhaustive"] = True
    rep.cov["rule"] = ("TLC: all interleavings of create/attach/apply/drop (1 owner, 2 views, all deletion orders); behaviours of "
                       "the exported graph replayed on real shared-memory sketches of the five classes with odd byte sizes")
    rep.cov["distinct_nontrivial"] = len({json.dumps(p) for p in ps})
    rep.assumptions += ["state equality through sha256 digests of all arrays", "log sketches stay inside the reserved range (no random draws)"]
    return rep.finish()


# ------------------------------------------------------------------------- C17

def check_C17(tier):
    import hllq as Q
    rep = Report("C17", tier)
    rng = _rng("C17")
    Q.validate(rep, rng, tier == "quick")
    rep.cov["exhaustive"] = False
    rep.cov["rule"] = ("for every precision 7..16: register arrays from real key sets at loads 0.01..10(100) keys/register and synthetic "
                       "arrays (all-1, all-4, all-maximum, one zero register, arrays on both sides of threshold[p] and of 5m); every "
                       "cell of the 4 x 10 regime decision must be hit")
    rep.cov["distinct_nontrivial"] = rep.cov["evaluations"]
    rep.assumptions += ["ln from CPython math.log; raw estimate and interpolated bias from exact fractions; relative tolerance 2^-30 + 1e-9",
                        "the comparisons > threshold and <= 5m are unobservable exactly at the boundary values (never attained)"]
    return rep.finish()


# ------------------------------------------------------------------------- C14

def check_C14(tier):
    import math
    import numpy as np
    import hashes_drv as HD
    import hh as H
    rep = Report("C14", tier, level="exploration")
    rng = _rng("C14")
    quick = tier == "quick"
    HD.anchor(rep)
    cm = impl.countmin
    # stage 1 (exact mechanism): the column of key k in row r is FastHash64(k, r) % width
    calls = []
    nkeys = 160 if quick else 1024
    # powers of two and widths of every other bit pattern (a "fast path" for special widths must agree with % width)
    widths = [4, 16, 32, 128, 3, 5, 20, 33, 40, 25, 65, 200, 1000, 7, 36, 66, 1, 2, 10, 96]
    for i in range(nkeys):
        key = bytes(rng.randrange(256) for _ in range(rng.choice([0, 1, 3, 7, 8, 9, 16, 23])))
        W = widths[i % len(widths)]
        kind = ["linear", "log16", "log8"][i % 3]
        depth = [8, 1, 3, 5, 2, 7][i % 6]                  # even and odd depths
        cols = impl.cm_cols(lambda: cm.CountMin(kind, W, depth), key)
        for r, c in enumerate(cols):
            calls.append({"fn": "cmcol", "key": list(key), "row": r, "W": W, "out": c})
        if i % 8 == 0:
            L = 24
            hc = H.hh_cols(W, 4, L, key)
            for r, c in enumerate(hc):
                calls.append({"fn": "cmcol", "key": list(key[:L]), "row": r, "W": W, "out": c})
    saved = (rep.violations, list(rep.cov["samples"]))
    rep.known_findings = list(rep.known_findings)
    mech_rep = Report("C14", tier, level="exploration")      # stage 1 alone never raises the alarm
    import io, contextlib
    buf = io.StringIO()
    with contextlib.redirect_stdout(buf):
        mech_ok = HD.validate_calls(mech_rep, calls, "c14mech", "placement")
    rep.cov["mechanism_equation_holds"] = bool(mech_ok)
    rep.cov["states"] += mech_rep.cov["states"]
    rep.cov["transitions"] += mech_rep.cov["transitions"]
    if mech_ok:
        rep.cov["traces_validated_against_impl"] += len(calls)
        rep.cov["evaluations"] += len(calls)
        rep.count_action("cmcol", len(calls))
    # stage 2 (tolerant, decides): joint column distribution of every pair of rows + documented bound
    N = 4096 if quick else 20000
    W = 4
    # key sets of one length class each (short, one block, just over a block, long): a scheme that treats
    # some lengths differently must not hide behind the others
    def keyset(lo, hi):
        return [bytes(rng.randrange(256) for _ in range(rng.randint(lo, hi))) + i.to_bytes(3, "little") for i in range(N)]
    classes = [keyset(0, 4), keyset(5, 5), keyset(6, 13), keyset(14, 40)]
    keys = classes[0][: N // 4] + classes[1][N // 4: N // 2] + classes[2][N // 2: 3 * N // 4] + classes[3][3 * N // 4:]
    stat = []
    for ci, ks in enumerate(classes):
        cols = np.array([impl.cm_cols(lambda: cm.CountMinLinear(W, 4), k) for k in ks[: N // 2]]) - 1
        for a in range(4):
            for b in range(a + 1, 4):
                cnt = np.zeros((W, W), int)
                np.add.at(cnt, (cols[:, a], cols[:, b]), 1)
                stat.append({"fn": "joint", "counts": cnt.tolist(), "n": N // 2, "W": W, "out": "ok", "rows": [a, b],
                             "depth": 4, "length_class": ci})
    for D, mk in ((3, lambda: cm.CountMinLinear(W, 3)), (4, lambda: cm.CountMinLog8(W, 4)),
                  (5, lambda: cm.CountMinLog16(W, 5))) + (() if quick else ((8, lambda: cm.CountMinLinear(W, 8)),
                                                                            (7, lambda: cm.CountMinLog8(W, 7)))):
        cols = np.array([impl.cm_cols(mk, k) for k in keys]) - 1
        for a in range(D):
            for b in range(a + 1, D):
                cnt = np.zeros((W, W), int)
                np.add.at(cnt, (cols[:, a], cols[:, b]), 1)
                stat.append({"fn": "joint", "counts": cnt.tolist(), "n": N, "W": W, "out": "ok", "rows": [a, b], "depth": D})
    # a single row (depth 1) must use every column
    c1 = np.array([impl.cm_cols(lambda: cm.CountMinLinear(16, 1), k) for k in keys[:2048]]) - 1
    cnt = np.zeros((4, 4), int)
    np.add.at(cnt, (c1[:, 0] // 4, c1[:, 0] % 4), 1)
    stat.append({"fn": "joint", "counts": cnt.tolist(), "n": 2048, "W": 4, "out": "ok", "rows": [0, 0], "depth": 1})
    # widths that are not powers of two (all bit patterns: 9 = 1001b, 36 = 100100b, 25 = 11001b): every row must
    # use every column about equally -- a square width is laid out as a side x side table for the same test
    for Wn, side in ((9, 3), (36, 6), (25, 5)):
        for kind, D in (("linear", 3), ("log8", 2)):
            cols = np.array([impl.cm_cols(lambda: cm.CountMin(kind, Wn, D), k) for k in keys[:4096]]) - 1
            for r in range(D):
                cnt = np.zeros((side, side), int)
                np.add.at(cnt, (cols[:, r] // side, cols[:, r] % side), 1)
                stat.append({"fn": "joint", "counts": cnt.tolist(), "n": len(cols), "W": side, "out": "ok", "rows": [r, r],
                             "depth": D, "width": Wn})
    # deep and wide shapes (depth * log2(width) > 64: a scheme that slices one 64-bit hash per key runs out of bits and
    # repeats rows only there): columns reduced to 4 classes by their low and by their high bits, every pair of rows
    for Wd, Dd, kind in ((256, 16, "linear"), (16, 32, "log8"), (65536, 8, "log16"), (1024, 12, "linear")):
        cols = np.array([impl.cm_cols(lambda: cm.CountMin(kind, Wd, Dd), k) for k in keys[:4096]]) - 1
        for red, rc in (("low", cols % 4), ("high", (cols * 4) // Wd)):
            for a in range(Dd):
                for b in range(a + 1, Dd):
                    cnt = np.zeros((4, 4), int)
                    np.add.at(cnt, (rc[:, a], rc[:, b]), 1)
                    stat.append({"fn": "joint", "counts": cnt.tolist(), "n": len(cols), "W": 4, "out": "ok", "rows": [a, b],
                                 "depth": Dd, "width": Wd, "bits": red})
    # Zipf stream: a few keys heavier than e*N/width
    zw, zd, zn = (64, 8, 5000) if quick else (32, 8, 20000)
    sk = cm.CountMinLinear(zw, zd)
    truth = {}
    zkeys = [b"z%d" % i for i in range(zn)]
    for i, k in enumerate(zkeys):
        c = max(1, int(2000 / (i + 1)))
        truth[k] = c
        sk.add(k, c)
    total = int(sk.n_added())
    bound = math.e * total / zw
    bad = sum(1 for k in zkeys if int(sk.query(k)) > truth[k] + bound)
    stat.append({"fn": "zipf", "bad": bad, "nkeys": zn, "ed": int(math.ceil(math.exp(zd))), "out": "ok",
                 "width": zw, "depth": zd})
    HD.validate_calls(rep, stat, "c14stat", "row-independence")
    rep.sample(calls[3])
    rep.sample({k: v for k, v in stat[0].items()})
    rep.sample(stat[-1])
    rep.cov["rule"] = ("stage 1: column of (key,row) equals FastHash64(key,row) % width by Hashes.tla for random keys x 8 rows x widths "
                       "{4,16,32,128} x three counter types + heavy hitters (never alarms alone); stage 2: joint column counts of every "
                       "row pair within [1/2, 2] of expectation, Zipf stream within the documented bound")
    rep.cov["distinct_nontrivial"] = max(2, rep.cov["evaluations"])
    rep.assumptions += ["FastHash64 under distinct seeds behaves as independent uniform hashes (external fact about the hash family)",
                        "stage 2 is a statistical acceptance test with >= 8 sigma margins"]
    return rep.finish()
