"""One function per property: what is model checked, what is replayed into the real code,
which recorded executions are validated.  See DESIGN.md section 4."""
import json
import random

import common
from common import Report, SEED
import impl

impl.patch_sleep()


def _rng(prop):
    return random.Random("%s-%d" % (prop, SEED))


def replay(prop, path):
    """Re-execute a recorded violation against the current tree."""
    with open(path) as f:
        obj = json.load(f)
    rep = Report(prop, "quick")
    rep.known_findings = []
    kind = obj.get("kind")
    if kind == "trace":
        mod = __import__(obj["driver"])
        tr = mod.rerun(obj["trace"])
        mod.validate(rep, [tr], obj.get("invs", []), obj.get("props", []), tag="replay")
    else:
        print("replay of kind %s: re-running the quick check instead" % kind)
        return globals()["check_" + prop]("quick")
    print("replay: %s" % ("violation reproduced" if rep.violations else "no violation on the current tree"))
    return 1 if rep.violations else 0


# ------------------------------------------------------------------------- C01

def check_C01(tier):
    import cm_linear as L
    rep = Report("C01", tier)
    rng = _rng("C01")
    invs = ["Lower", "Upper", "UpperCell", "Exact", "NAdded", "CellsBelowCap"]
    quick = tier == "quick"
    # (1) design: exhaustive model checking of the bounds on every history of the small instance
    L.model_check(rep, invs, [], W=2, D=2, Cap=3, MaxTruth=3 if quick else 5, Slots=2, tag="c01mc")
    if not quick:
        L.model_check(rep, invs, [], W=3, D=1, Cap=5, MaxTruth=5, Slots=2, tag="c01mc2")
        L.model_check(rep, invs, [], W=1, D=2, Cap=3, MaxTruth=4, Slots=3, tag="c01mc3")
    # (2) spec -> code: every explored transition replayed on the real class at the real ceiling
    idx = sorted(rng.sample(range(1, 17), 3) + [1, 16]) if quick else []
    edges = L.export_edges(rep, 2, 2, 3, 3, 2, False, "c01ea", small=quick, env_idx=idx)
    L.replay_edges(rep, edges, 3, True, rng, variants=1 if quick else 3)
    edges = L.export_edges(rep, 2, 2, 1000, 2 if quick else 3, 2, True, "c01eb", small=True,
                           env_idx=idx[:3] if quick else [])
    L.replay_edges(rep, edges, 1000, False, rng, variants=1 if quick else 2)
    # (3) code -> spec: recorded random histories validated by TLC with the ghost truth
    n = 60 if quick else 600
    traces = [L.random_history(rng, focus=rng.choice([None, None, "ceiling", "merge"])) for _ in range(n)]
    for i in range(0, n, 150):
        L.validate(rep, traces[i:i + 150], invs, [], tag="c01tr%d" % i)
    rep.sample({"trace_keys": traces[0]["keys"][:3], "trace_events": traces[0]["events"][:2]})
    rep.cov["exhaustive"] = True
    rep.cov["rule"] = ("TLC: all histories of the named small instances; edge replay: every exported transition; "
                       "traces: random histories on real sketches, each event distinct by construction")
    rep.cov["distinct_nontrivial"] = rep.cov["states"]
    rep.assumptions += ["columns of a key are observed on an empty probe sketch (not recomputed)",
                        "TLC 1.8 and the CommunityModules Json/IOUtils overrides"]
    return rep.finish()


# ------------------------------------------------------------- C03 / C04 / C13

def _hh_common(prop, tier, invs, props, focus, query_mc):
    import hh as H
    rep = Report(prop, tier)
    rng = _rng(prop)
    quick = tier == "quick"
    # (1) design level
    if query_mc:
        H.model_check(rep, invs, props, tag=prop + "mcq", W=2, D=1, Cap=5, MaxTruth=3, Slots=1, query=True)
        if not quick:
            H.model_check(rep, invs, props, tag=prop + "mcq2", W=1, D=2, Cap=5, MaxTruth=3, Slots=1, query=True)
            H.model_check(rep, invs, props, tag=prop + "mcq3", W=2, D=1, Cap=5, MaxTruth=3, Slots=2, query=True,
                          small=True, unit_ops=False)
    else:
        H.model_check(rep, invs, props, tag=prop + "mc", W=2, D=1, Cap=5, MaxTruth=3 if quick else 4, Slots=2)
        H.model_check(rep, invs, props, tag=prop + "mcw1", W=1, D=2, Cap=5, MaxTruth=3 if quick else 4, Slots=2)
        if not quick:
            H.model_check(rep, invs, props, tag=prop + "mcd2", W=2, D=2, Cap=5, MaxTruth=3, Slots=2,
                          env_idx=sorted(rng.sample(range(1, 65), 12)))
    # (2) spec -> code on placements observed from the real hash
    for (W, D) in ([(2, 1)] if quick else [(2, 1), (1, 2), (2, 2)]):
        envs = H.observed_envs(W, D, 3 if quick else 8, rng)
        if query_mc:
            edges = H.export_edges(rep, envs, prop + "eq%d%d" % (W, D), 5, 3, 1, False, True, True)
        else:
            edges = H.export_edges(rep, envs, prop + "e%d%d" % (W, D), 5, 3, 2, False, False, quick)
        H.replay_edges(rep, edges, envs, 5, True)
        edges = H.export_edges(rep, envs[:2], prop + "eu%d%d" % (W, D), 1000, 2, 1 if query_mc else 2, True, query_mc, True)
        H.replay_edges(rep, edges, envs[:2], 1000, False)
    # (3) code -> spec
    n = 60 if quick else 600
    traces = [H.random_history(rng, focus=rng.choice(focus)) for _ in range(n)]
    for i in range(0, n, 150):
        H.validate(rep, traces[i:i + 150], invs, props, tag=prop + "tr%d" % i)
    rep.sample({"trace_shape": {k: traces[0][k] for k in ("W", "D", "L", "NS", "phi")},
                "trace_keys": traces[0]["keys"][:3],
                "trace_events": [{k: v for k, v in e.items() if k != "post"} for e in traces[0]["events"][:4]]})
    rep.cov["exhaustive"] = True
    rep.cov["rule"] = ("TLC: all histories of the named small instances (identities e,<0>,<1>,<1,0>, L=2); edge replay: "
                       "every exported transition on placements observed from the real hash; traces: random "
                       "histories on real sketches incl. NUL-aliased keys")
    rep.cov["distinct_nontrivial"] = rep.cov["states"]
    rep.assumptions += ["cell ownership observed on an empty probe sketch", "TLC 1.8, CommunityModules Json/IOUtils"]
    return rep.finish()


def check_C03(tier):
    import hh as H
    return _hh_common("C03", tier, H.INV_C03, [], [None, None, "ceiling", "batch"], False)


def check_C04(tier):
    import hh as H
    return _hh_common("C04", tier, H.INV_C04, [], [None, None, "batch"], False)


def check_C13(tier):
    import hh as H
    return _hh_common("C13", tier, H.INV_C13, H.PROP_C13, ["query", "query", None], True)


# ------------------------------------------------------------------------- C11

def check_C11(tier):
    import hashes_drv as HD
    rep = Report("C11", tier)
    rng = _rng("C11")
    quick = tier == "quick"
    other = HD.other_process_calls(SEED + 1, 100 if quick else 257)
    HD.anchor(rep)
    calls = HD.gen_calls(rng, 4 if quick else 16)
    # keys constructed to have prescribed hashes double as a check (C02's realisation)
    ok = HD.validate_calls(rep, calls, "c11a")
    out = other.communicate()[0]
    line = [x for x in out.splitlines() if x.startswith("CALLS")]
    if not line:
        raise common.MachineryError("second interpreter produced no calls")
    calls2 = json.loads(line[0][5:])
    if ok:
        HD.validate_calls(rep, calls2, "c11b")
    rep.sample(calls[5])
    rep.sample(calls[-1])
    rep.cov["rule"] = ("every length 0..257 x {fasthash64, fasthash32, murmur3} rotated, biased bytes, boundary seeds, "
                       "keys built by slicing at offsets 0..7, second interpreter with another PYTHONHASHSEED; each call is "
                       "distinct by construction")
    rep.cov["distinct_nontrivial"] = len({json.dumps(c, sort_keys=True) for c in calls + calls2})
    rep.assumptions += ["SMHasher's published verification values identify the reference algorithms",
                        "TLC Bitwise Java overrides"]
    return rep.finish()


# ------------------------------------------------------------------------- C02

def check_C02(tier):
    import hll as H
    import hashes_drv as HD
    rep = Report("C02", tier)
    rng = _rng("C02")
    quick = tier == "quick"
    HD.anchor(rep)          # Hashes.tla (placement oracle, incl. nlz64) is the published FastHash
    H.model_check(rep, H.INVS, Slots=2 if quick else 3, MaxKeys=4, tag="c02mc")
    edges = H.export_edges(rep, 2, 2 if quick else 3, "c02e",
                           place_idx=sorted(rng.sample(range(1, 649), 24 if quick else 80)))
    combos = [(7, 0), (12, 2**64 - 1)] if quick else [(p, s) for p in range(7, 17) for s in (0, 1, 2**32, 2**63, 2**64 - 1)]
    H.replay_edges(rep, edges, combos, rng, max_places=None if quick else 12)
    n = 80 if quick else 800
    traces = [H.random_history(rng) if i % 3 else H.partition_history(rng) for i in range(n)]
    for i in range(0, n, 200):
        H.validate(rep, traces[i:i + 200], H.INVS, tag="c02tr%d" % i)
    rep.sample({"p": traces[1]["p"], "seed": traces[1]["seed"],
                "events": [{k: v for k, v in e.items() if k != "post"} for e in traces[1]["events"][:3]]})
    rep.cov["exhaustive"] = True
    rep.cov["rule"] = ("TLC: all orders/duplications/batchings/partitions/merge trees of 4 keys under every placement; "
                       "edge replay with keys constructed to hit chosen registers and ranks 1, 2, 64-p+1; traces with "
                       "placement recomputed by Hashes.tla")
    rep.cov["distinct_nontrivial"] = rep.cov["states"]
    rep.assumptions += ["Hashes.tla is the reference FastHash (anchored to SMHasher's verification value in the same run)"]
    return rep.finish()
