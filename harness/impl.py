"""Binding to the implementation under test: imports sketchnu from the tree named by
VERIF_REPO (default /repo), projections of the real objects onto the specification's
state, number encodings, key pools and placement probes."""
import os
import sys
import tempfile

from common import REPO, MachineryError, ImplMisbehaved, workdir

os.environ.setdefault("SKETCHNU_VERIF", "1")
if REPO not in sys.path:
    sys.path.insert(0, REPO)

import numpy as np  # noqa: E402

import sketchnu  # noqa: E402
from sketchnu import countmin, heavyhitters, hyperloglog, hashes, helpers  # noqa: E402

if not os.path.abspath(sketchnu.__file__).startswith(os.path.abspath(REPO) + os.sep):
    raise MachineryError("sketchnu imported from %s, not from %s" % (sketchnu.__file__, REPO))


def no_sleep(*_a, **_k):
    return None


def patch_sleep():
    """__del__ of every shared-memory sketch sleeps 0.25 s; the harness (test side)
    replaces the module-level name.  No source change."""
    for m in (countmin, heavyhitters, hyperloglog):
        m.sleep = no_sleep


# save()/load() failures inside histories are judged by the C10 check only (it sets this flag);
# other properties' histories skip a save/load that raises
STRICT_PERSIST = False

CAP32 = 2**32 - 1
BIGR = 1 << 20


DB = 1 << 30


def big(n):
    """int -> DigNum (spec/DigNum.tla): little-endian base-2^30 digits, normalised; 0 = []."""
    n = int(n)
    if n < 0:
        raise MachineryError("negative value %d in the trace encoding" % n)
    out = []
    while n:
        out.append(n & (DB - 1))
        n >>= 30
    return out


def unbig(p):
    v = 0
    for i, d in enumerate(p):
        v += d << (30 * i)
    return v


def kb(key):
    """bytes -> list of ints (TLA+ sequence of 0..255)."""
    return list(key)


# ------------------------------------------------------------------ key pools

def special_keys(rng, n_random=6, max_len=64):
    """Keys of the shapes the properties single out."""
    ks = [b"", b"\x00", b"\x00\x00", b"a", b"a\x00", b"a\x00\x00", b"ab", b"abc",
          b"\xff", b"\x80\x7f", b"\xff" * 8, b"\x00" * 8, b"01234567", b"012345678",
          bytes(range(64)), b"x" * 64, b"\x80" * 17]
    for _ in range(n_random):
        ln = rng.choice([1, 2, 3, 4, 7, 8, 9, 15, 16, 17, 31, 33, max_len])
        ks.append(bytes(rng.choice([0, 0x7f, 0x80, 0xff, rng.randrange(256)]) for _ in range(ln)))
    return ks


# ------------------------------------------------------------------ count-min

CM_CLASSES = {"linear": countmin.CountMinLinear, "log16": countmin.CountMinLog16,
              "log8": countmin.CountMinLog8}


def cm_cols(cls_factory, key):
    """Columns (1-based, one per row) that `key` owns, observed on an empty probe sketch of
    the same shape after one add -- does not trust the hash function."""
    probe = cls_factory()
    probe.add(key)
    cols = []
    for r in range(int(probe.depth)):
        nz = np.flatnonzero(probe.cms[r])
        if len(nz) != 1:
            raise ImplMisbehaved("one add to an empty probe sketch left %d non-zero cells in row %d" % (len(nz), r))
        cols.append(int(nz[0]) + 1)
    return cols


def proj_linear(sk):
    return {"tbl": [[big(x) for x in row] for row in sk.cms.tolist()],
            "nadd": big(sk.n_added_records[0]), "nrec": big(sk.n_added_records[1])}


def tmpfile(suffix=".npz"):
    fd, p = tempfile.mkstemp(suffix=suffix, dir=workdir())
    os.close(fd)
    return p
