"""Catalogue of source mutants (each a realistic faulty change) and the checks that must report
them.  Run:  python3 selftest/mutants.py [names...]   (scratch copies live under /tmp/verif_mut
and are removed after use; evidence of these runs goes to a scratch directory, never to
/verif/evidence)."""
import json
import os
import shutil
import subprocess
import sys
import time
from concurrent.futures import ThreadPoolExecutor

VERIF = os.path.dirname(os.path.dirname(os.path.abspath(__file__)))
REPO = os.environ.get("VERIF_REPO", "/repo")
SCRATCH = "/tmp/verif_mut"

# (name, file, old, new, [properties expected to report a violation])
M = [
 ("lin_no_cap", "countmin.py", "    value = min(value, uint_maxval - min_count)\n", "", ["C01", "C05", "C18"]),
 ("lin_merge_wrap", "countmin.py",
  "            if other_cms[row, col] > uint_maxval - cms[row, col]:\n                cms[row, col] = uint_maxval\n            else:\n                cms[row, col] += other_cms[row, col]",
  "            cms[row, col] += other_cms[row, col]", ["C09", "C18", "C01"]),
 ("lin_increment_all", "countmin.py",
  "    for row in range(depth):\n        count = cms[row, buckets[row]]\n        if count < new_count:\n            cms[row, buckets[row]] = new_count\n\n\n@njit(\n    types.void(\n        uint32[:, :],\n        uint64[:],\n        uint64[:],\n        uint64,\n        uint64,\n        uint32,\n        types.Bytes(types.uint8, 1, \"C\"),\n        uint64,",
  "    for row in range(depth):\n        count = cms[row, buckets[row]]\n        if count < uint_maxval - value:\n            cms[row, buckets[row]] = count + value\n        else:\n            cms[row, buckets[row]] = uint_maxval\n\n\n@njit(\n    types.void(\n        uint32[:, :],\n        uint64[:],\n        uint64[:],\n        uint64,\n        uint64,\n        uint32,\n        types.Bytes(types.uint8, 1, \"C\"),\n        uint64,",
  ["C05"]),
 ("hll_merge_skip_last", "hyperloglog.py", "    for i in range(m):\n        registers[i] = max(registers[i], other_registers[i])",
  "    for i in range(m - 1):\n        registers[i] = max(registers[i], other_registers[i])", ["C02"]),
 ("hll_nlz_last_branch", "hyperloglog.py", "    y = x >> uint64(1)\n    if y != zero:\n        return n - uint8(2)\n\n    return n - uint8(x)",
  "    y = x >> uint64(1)\n    if y != zero:\n        return n - uint8(2)\n\n    return n - uint8(1)", ["C02"]),
 ("hh_replace_ge", "heavyhitters.py", "            if value > lhh_count[row, col]:", "            if value >= lhh_count[row, col]:", ["C03", "C04", "C13"]),
 ("hh_scan_row0", "heavyhitters.py", "        for row in range(self.depth):\n            for column in range(self.width):",
  "        for row in range(1):\n            for column in range(self.width):", ["C04", "C13"]),
 ("hh_cache_ignores_threshold", "heavyhitters.py",
  "        if (self.n_added_sort < self.n_added()) or (self.threshold_sort != threshold):", "        if self.n_added_sort < self.n_added():", ["C13"]),
 ("log_no_refill", "countmin.py", "        rand_batch[:] = np.random.rand(2048)\n", "", ["C06"]),
 ("log_prob_5pct", "countmin.py", "            if rand < base ** (-cprime):", "            if rand < 1.05 * base ** (-cprime):", ["C06", "C05"]),
 ("log_merge_round_down", "countmin.py",
  "                if delta / (vhigher - vlower) <= 0.5:\n                    cms[row, col] = clower\n                else:\n                    cms[row, col] = clower + uint8(1)",
  "                cms[row, col] = clower", ["C09"]),
 ("log16_load_drops_counters", "countmin.py",
  "            cms = CountMinLog16(*args, shared_memory=shared_memory)\n            np.copyto(cms.cms, npzfile[\"cms\"])\n            np.copyto(cms.n_added_records, npzfile[\"n_added_records\"])",
  "            cms = CountMinLog16(*args, shared_memory=shared_memory)\n            np.copyto(cms.cms, npzfile[\"cms\"])", ["C10"]),
 ("murmur_tail2", "hashes.py", "    elif switch_len == 2:\n        k1 = _xor32(k1, _shift32l(tail[1], 8))", "    elif switch_len == 2:\n        k1 = _xor32(k1, _shift32l(tail[1], 16))", ["C11"]),
 ("fasthash_tail5", "hashes.py", "    elif switch_case == 5:\n        tail = key[nblocks * 8 :]\n        v = uint64(0)\n        v = _xor_shiftl(v, tail[4], 32)",
  "    elif switch_case == 5:\n        tail = key[nblocks * 8 :]\n        v = uint64(0)\n        v = _xor_shiftl(v, tail[4], 24)", ["C11"]),
 ("hh_ngram_window_count", "heavyhitters.py", "        for i in range(key_len - (ngram - uint64(1))):\n            _add(", "        for i in range(key_len - ngram):\n            _add(", ["C12"]),
 ("log8_ngram_window_count", "countmin.py", "        for i in range(key_len - (ngram - uint64(1))):\n            rand_ptr = _add_log8(", "        for i in range(key_len - ngram):\n            rand_ptr = _add_log8(", ["C12"]),
 ("hll_merge_no_seed_check", "hyperloglog.py", "        if self.p != other.p or self.seed != other.seed:", "        if self.p != other.p:", ["C15"]),
 ("hh_attach_swapped", "heavyhitters.py",
  "        start = end\n        end += self.lhh_count.nbytes\n        self.lhh_count = np.frombuffer(\n            existing_shm.buf[start:end],\n            np.uint32,\n        ).reshape(self.depth, self.width)\n        start = end\n        end += self.key_lens.nbytes\n        self.key_lens = np.frombuffer(\n            existing_shm.buf[start:end],\n            np.uint8,\n        ).reshape(self.depth, self.width)",
  "        start = end\n        end += self.key_lens.nbytes\n        self.key_lens = np.frombuffer(\n            existing_shm.buf[start:end],\n            np.uint8,\n        ).reshape(self.depth, self.width)\n        start = end\n        end += self.lhh_count.nbytes\n        self.lhh_count = np.frombuffer(\n            existing_shm.buf[start:end],\n            np.uint32,\n        ).reshape(self.depth, self.width)",
  ["C16", "C08"]),
 ("hll_5m_to_4m", "hyperloglog.py", "        if cardinality <= float64(5 * m):", "        if cardinality <= float64(4 * m):", ["C17"]),
 ("hh_add_no_saturation", "heavyhitters.py",
  "            if value < uint_maxval - lhh_count[row, col]:\n                lhh_count[row, col] += value\n            else:\n                lhh_count[row, col] = uint_maxval",
  "            lhh_count[row, col] += value", ["C18", "C03"]),
 ("worker_counts_failed_item", "helpers.py", "            except Exception as exc:\n                n_recs = 0", "            except Exception as exc:\n                n_recs = 1", ["C19"]),
 ("monitor_ignores_positive_exit", "helpers.py", "            elif p.exitcode != 0:", "            elif p.exitcode < 0:", ["C19"]),
 ("merge_drops_carried", "helpers.py", "        for i in range(0, n_to_merge, 2):\n            new_sketch_array.append(sketch_array[i])",
  "        for i in range(0, n_to_merge - 1, 2):\n            new_sketch_array.append(sketch_array[i])", ["C08"]),
 ("nrecords_first_sketch_only", "helpers.py",
  "                    local_sketch.n_added_records[1] += np.uint64(n_records)\n                except:\n                    pass",
  "                    local_sketch.n_added_records[1] += np.uint64(n_records)\n                    n_records = 0\n                except:\n                    pass", ["C08"]),
 ("linear_load_falls_back_to_empty", "countmin.py",
  "        with np.load(filename) as npzfile:\n            args = npzfile[\"args\"]\n            cms_dtype = npzfile[\"dtype\"].dtype\n            if cms_dtype != np.uint32:",
  "        try:\n            np.load(filename).close()\n        except Exception:\n            return CountMinLinear(1, 1, shared_memory)\n        with np.load(filename) as npzfile:\n            args = npzfile[\"args\"]\n            cms_dtype = npzfile[\"dtype\"].dtype\n            if cms_dtype != np.uint32:",
  ["C20"]),
 ("rows_share_seed", "countmin.py", "def _query_linear(cms, buckets, width, depth, uint_maxval, key):", None, ["C14"]),
]


def apply(tree, name, fname, old, new):
    p = os.path.join(tree, "sketchnu", fname)
    s = open(p).read()
    if name == "rows_share_seed":
        old = "        buckets[row] = fasthash64(key, row) % width\n        count = cms[row, buckets[row]]\n        if count < min_count:\n            min_count = count\n    return min_count\n\n\n@njit(\n    types.void(\n        uint32[:, :],"
        new = old.replace("fasthash64(key, row)", "fasthash64(key, row % 2)")
    if s.count(old) < 1:
        raise SystemExit("mutant %s: pattern not found in %s" % (name, fname))
    s = s.replace(old, new, 1)
    open(p, "w").write(s)


def run_one(m, tier="quick"):
    name, fname, old, new, props = m
    tree = os.path.join(SCRATCH, name)
    shutil.rmtree(tree, ignore_errors=True)
    os.makedirs(tree)
    shutil.copytree(os.path.join(REPO, "sketchnu"), os.path.join(tree, "sketchnu"))
    apply(tree, name, fname, old, new)
    res = {}
    for prop in props:
        out = os.path.join(tree, "out_" + prop)
        env = dict(os.environ, VERIF_REPO=tree, VERIF_OUT_DIR=out, VERIF_SEED=os.environ.get("VERIF_SEED", "1"))
        t0 = time.time()
        p = subprocess.run([os.path.join(VERIF, "check"), prop, "--tier", tier], env=env, stdout=subprocess.PIPE,
                           stderr=subprocess.STDOUT, text=True, timeout=3000)
        viol = [l for l in p.stdout.splitlines() if l.startswith("VIOLATION")]
        res[prop] = {"exit": p.returncode, "violation": bool(viol), "wall": round(time.time() - t0),
                     "first": (p.stdout.split("VIOLATION", 1)[1][:300] if viol else p.stdout[-300:])}
    shutil.rmtree(tree, ignore_errors=True)
    return name, res


def main():
    want = sys.argv[1:]
    ms = [m for m in M if not want or m[0] in want]
    results = {}
    with ThreadPoolExecutor(max_workers=int(os.environ.get("MUT_JOBS", "3"))) as ex:
        for name, res in ex.map(run_one, ms):
            results[name] = res
            print(name, {k: ("KILLED" if v["exit"] == 1 and v["violation"] else "exit=%d" % v["exit"]) for k, v in res.items()}, flush=True)
    json.dump(results, open(os.path.join(VERIF, "selftest", "last_run.json"), "w"), indent=1)
    missed = [(n, p) for n, r in results.items() for p, v in r.items() if not (v["exit"] == 1 and v["violation"])]
    print("missed:", missed)


if __name__ == "__main__":
    main()
