"""False-alarm test: apply a property-preserving change (written by an independent sub-agent) to a
scratch copy of /repo and run checks against it; every check must exit 0 without a VIOLATION line.
usage: run_benign.py <name> <diff> <prop> [more props...]      (env TIER=quick|thorough, JOBS=n)
Writes /verif/benign/<name>/{change.diff,meta.json}.  The scratch copy lives under /tmp/benchk and
is removed afterwards."""
import json
import os
import shutil
import subprocess
import sys
import time
from concurrent.futures import ThreadPoolExecutor

VERIF = os.path.dirname(os.path.dirname(os.path.abspath(__file__)))
name, diff, props = sys.argv[1], sys.argv[2], sys.argv[3:]
scratch = "/tmp/benchk/" + name
shutil.rmtree(scratch, ignore_errors=True)
os.makedirs(scratch)
subprocess.run("git -C /repo archive HEAD | tar -x -C %s" % scratch, shell=True, check=True)
ap = subprocess.run(["patch", "-p1", "-i", diff], cwd=scratch, stdout=subprocess.PIPE, stderr=subprocess.STDOUT, text=True)
meta = {"name": name, "patch_applies": ap.returncode == 0, "confirmed_at": time.strftime("%Y-%m-%d %H:%M"), "checks": {}}
if ap.returncode != 0:
    print(name, "PATCH DOES NOT APPLY", ap.stdout[-300:])
    sys.exit(2)


def run(prop):
    out = os.path.join(scratch, "out_" + prop)
    e2 = dict(os.environ, VERIF_REPO=scratch, VERIF_OUT_DIR=out, VERIF_SEED=os.environ.get("VERIF_SEED", "1"))
    t1 = time.time()
    p = subprocess.run([os.path.join(VERIF, "check"), prop, "--tier", os.environ.get("TIER", "quick")], env=e2,
                       stdout=subprocess.PIPE, stderr=subprocess.STDOUT, text=True, timeout=6000)
    viol = [l for l in p.stdout.splitlines() if l.startswith("VIOLATION")]
    return prop, {"exit": p.returncode, "alarm": bool(viol) or p.returncode == 1, "wall_s": round(time.time() - t1),
                  "report": (p.stdout.split("VIOLATION", 1)[1][:600] if viol else p.stdout[-300:])}


with ThreadPoolExecutor(int(os.environ.get("JOBS", "2"))) as ex:
    for prop, res in ex.map(run, props):
        meta["checks"][prop] = res
dst = os.path.join(VERIF, "benign", name)
os.makedirs(dst, exist_ok=True)
shutil.copy(diff, os.path.join(dst, "change.diff"))
json.dump(meta, open(os.path.join(dst, "meta.json"), "w"), indent=1)
shutil.rmtree(scratch, ignore_errors=True)
print(name, {k: ("ALARM" if v["alarm"] else "exit%d" % v["exit"]) for k, v in meta["checks"].items()})
