"""Demonstrates that the trace specifications are bound to what was recorded (DESIGN 5.3): a trace
recorded from the real code is accepted; the same trace with ONE recorded field changed, or with
ONE mutating event removed, is rejected at exactly that event.  Run:
    /venv/bin/python selftest/binding_demo.py          (writes selftest/binding_demo.json)
Evidence and replays of these runs go to a scratch directory, never to /verif/evidence."""
import copy
import json
import os
import random
import sys
import tempfile

VERIF = os.path.dirname(os.path.dirname(os.path.abspath(__file__)))
sys.path.insert(0, os.path.join(VERIF, "harness"))
os.environ.setdefault("VERIF_OUT_DIR", tempfile.mkdtemp(prefix="binding_demo_"))

import common  # noqa: E402
from common import Report  # noqa: E402
import impl  # noqa: E402

impl.patch_sleep()


def verdict(validate, trace):
    rep = Report("C01", "quick")
    seen = []
    rep.violation = lambda what, obj: seen.append(obj) or True      # keep the report, print nothing
    ok = validate(rep, [trace])
    return ok, (seen[0].get("event_index") if seen else None)


def first_mutating(tr, names):
    for i, e in enumerate(tr["events"]):
        # an event that really changed the recorded state (an add of 0 or at the ceiling is a stuttering step)
        if e["ev"] in names and 0 < i < len(tr["events"]) - 1 and e.get("post") != tr["events"][i - 1].get("post"):
            return i
    return None


def bump(x):
    """Change one recorded number (DigNum digit list, int, or nested)."""
    if isinstance(x, list) and (not x or isinstance(x[0], int)):
        return (x or [0])[:-1] + [(x or [0])[-1] + 1]
    if isinstance(x, int):
        return x + 1
    raise TypeError(x)


def demo(name, make, validate, mutating, corrupt_post):
    rows = []
    rng = random.Random(5)
    for _ in range(40):
        tr = make(rng)
        i = first_mutating(tr, mutating)
        if i is not None and len(tr["events"]) >= 6:
            break
    ok, _ = verdict(validate, tr)
    rows.append({"spec": name, "variant": "as recorded", "accepted": ok, "expected": True})
    bad = copy.deepcopy(tr)
    corrupt_post(bad["events"][i])
    ok, where = verdict(validate, bad)
    rows.append({"spec": name, "variant": "one recorded field of event %d (%s) changed" % (i + 1, tr["events"][i]["ev"]),
                 "accepted": ok, "expected": False, "rejected_at_event": where})
    bad = copy.deepcopy(tr)
    del bad["events"][i]
    ok, where = verdict(validate, bad)
    rows.append({"spec": name, "variant": "event %d (%s) removed (a missing hook)" % (i + 1, tr["events"][i]["ev"]),
                 "accepted": ok, "expected": False, "rejected_at_event": where})
    return rows


def main():
    import cm_linear as L
    import cm_log as G
    import hh as H
    import hll as Y

    def lin_corrupt(e):
        cell = e["post"][e["s"] - 1]["tbl"]
        cell[0][0] = bump(cell[0][0])

    def log_corrupt(e):
        cell = e["post"][e["s"] - 1]["tbl"]
        cell[0][0] = cell[0][0] + 1

    def hh_corrupt(e):
        st = e["post"][e["s"] - 1]
        st["nadd"] = bump(st["nadd"])

    def hll_corrupt(e):
        regs = e["post"][e["s"] - 1]
        regs[0][1] += 1

    rows = []
    rows += demo("Trace_CountMinLinear", lambda r: L.random_history(r, n_events=12),
                 lambda rep, t: L.validate(rep, t, ["Lower"], [], tag="bdl"), ("add",), lin_corrupt)
    rows += demo("Trace_CountMinLog", lambda r: G.random_history(r),
                 lambda rep, t: G.validate(rep, t, [], [], tag="bdg"), ("add",), log_corrupt)
    rows += demo("Trace_HeavyHitters", lambda r: H.random_history(r, n_events=12),
                 lambda rep, t: H.validate(rep, t, [], [], tag="bdh"), ("add",), hh_corrupt)
    rows += demo("Trace_HyperLogLog", lambda r: Y.random_history(r),
                 lambda rep, t: Y.validate(rep, t, [], tag="bdy"), ("add", "update_list"), hll_corrupt)
    good = all(r["accepted"] == r["expected"] for r in rows)
    json.dump({"rows": rows, "all_as_expected": good}, open(os.path.join(VERIF, "selftest", "binding_demo.json"), "w"), indent=1)
    for r in rows:
        print("%-22s %-60s accepted=%s (expected %s)" % (r["spec"], r["variant"][:60], r["accepted"], r["expected"]))
    print("BINDING DEMO", "OK" if good else "FAILED")
    return 0 if good else 1


if __name__ == "__main__":
    sys.exit(main())
