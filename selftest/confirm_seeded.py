"""Confirm a sub-agent's seeded change in a scratch copy of /repo and run the checks against it.
usage: confirm_seeded.py <name> <src_dir with patch.diff demo.py notes.md> <prop> [more props...]
Writes /verif/seeded/<name>/{patch.diff,demo.py,notes.md,meta.json}.  The scratch copy lives under
/tmp/seedchk and is removed afterwards."""
import json
import os
import shutil
import subprocess
import sys
import time

VERIF = os.path.dirname(os.path.dirname(os.path.abspath(__file__)))
name, src, props = sys.argv[1], sys.argv[2], sys.argv[3:]
scratch = "/tmp/seedchk/" + name
shutil.rmtree(scratch, ignore_errors=True)
os.makedirs(scratch)
subprocess.run("git -C /repo archive HEAD | tar -x -C %s" % scratch, shell=True, check=True)
env = dict(os.environ, PYTHONPATH=scratch, PYTHONDONTWRITEBYTECODE="1")
demo = os.path.join(src, "demo.py")


def run_demo():
    p = subprocess.run(["/venv/bin/python", "-W", "ignore", demo], cwd=scratch, env=env, stdout=subprocess.PIPE,
                       stderr=subprocess.STDOUT, text=True, timeout=1800)
    return p.returncode, p.stdout[-400:]


meta = {"name": name, "breaks_property": props[0], "also_run": props[1:], "confirmed_at": time.strftime("%Y-%m-%d %H:%M")}
rc0, out0 = run_demo()
meta["demo_on_original"] = {"exit": rc0, "tail": out0[-200:]}
ap = subprocess.run(["patch", "-p1", "-i", os.path.join(src, "patch.diff")], cwd=scratch, stdout=subprocess.PIPE,
                    stderr=subprocess.STDOUT, text=True)
meta["patch_applies"] = ap.returncode == 0
rc1, out1 = run_demo()
meta["demo_on_changed"] = {"exit": rc1, "tail": out1[-300:]}
t0 = time.time()
if os.environ.get("SKIP_SUITE"):
    meta["test_suite_on_changed"] = "skipped"
else:
    p = subprocess.run(["/venv/bin/python", "-m", "pytest", "-q", "-p", "no:cacheprovider", "--timeout=900", "tests/"],
                       cwd=scratch, env=env, stdout=subprocess.PIPE, stderr=subprocess.STDOUT, text=True, timeout=3000)
    meta["test_suite_on_changed"] = p.stdout.strip().splitlines()[-1]
meta["checks"] = {}
for prop in props:
    out = os.path.join(scratch, "out_" + prop)
    e2 = dict(os.environ, VERIF_REPO=scratch, VERIF_OUT_DIR=out, VERIF_SEED=os.environ.get("VERIF_SEED", "1"))
    t1 = time.time()
    p = subprocess.run([os.path.join(VERIF, "check"), prop, "--tier", os.environ.get("TIER", "quick")], env=e2,
                       stdout=subprocess.PIPE, stderr=subprocess.STDOUT, text=True, timeout=3000)
    viol = [l for l in p.stdout.splitlines() if l.startswith("VIOLATION")]
    meta["checks"][prop] = {"exit": p.returncode, "detected": p.returncode == 1 and bool(viol), "wall_s": round(time.time() - t1),
                            "report": (p.stdout.split("VIOLATION", 1)[1][:400] if viol else p.stdout[-200:])}
dst = os.path.join(VERIF, "seeded", os.environ.get("SEED_NAME", name))
os.makedirs(dst, exist_ok=True)
for f in ("patch.diff", "demo.py", "notes.md"):
    if os.path.exists(os.path.join(src, f)):
        shutil.copy(os.path.join(src, f), os.path.join(dst, f))
meta["what_it_needs"] = "see notes.md"
meta["ran"] = ("demo.py on a git-archive copy of /repo HEAD, then with patch.diff applied; the unedited pytest suite with the "
               "patch; ./check <prop> --tier quick with VERIF_REPO pointing at the patched copy")
json.dump(meta, open(os.path.join(dst, "meta.json"), "w"), indent=1)
shutil.rmtree(scratch, ignore_errors=True)
print(name, "orig", rc0, "changed", rc1, "suite:", meta["test_suite_on_changed"], {k: v["detected"] for k, v in meta["checks"].items()})
