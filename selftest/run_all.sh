#!/bin/sh
# Runs every check of the manifest on the tree under test and prints one line per check.
# usage: selftest/run_all.sh [quick|thorough]    (evidence goes to $VERIF_OUT_DIR if set)
cd "$(dirname "$0")/.."
tier="${1:-quick}"
for p in C01 C02 C03 C04 C05 C06 C08 C09 C10 C11 C12 C13 C14 C15 C16 C17 C18 C19 C20; do
  t0=$(date +%s)
  out=$(./check $p --tier $tier 2>&1); rc=$?
  t1=$(date +%s)
  echo "$p exit=$rc $((t1-t0))s $(echo "$out" | grep -E '^(VIOLATION|KNOWN|MACHINERY)' | head -2 | tr '\n' ' ' | cut -c1-200)"
done
