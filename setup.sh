#!/bin/sh
# Offline setup: nothing to build; verify the tools the checks need are present.
set -e
cd "$(dirname "$0")"
test -f /opt/veriftools/tla/tla2tools.jar
java -version >/dev/null 2>&1
/venv/bin/python -c "import numpy, numba" 
chmod +x ./check
mkdir -p evidence .work
echo "setup ok"
